//go:build verif

package deviceshare

// Engine `device` (C07): the real deviceshare Plugin (PreFilter / Filter / Reserve /
// Unreserve / PreBind), its nodeDeviceCache + nodeDevice ledgers, the AutopilotAllocator
// (GPU allocator falling through to defaultAllocateDevices, default handlers for RDMA/FPGA),
// the pod event handler and the Device (CRD) event handler are driven at operation level:
// the driver picks the next party to act (API writer / scheduler, pod informer, device
// informer, a binding goroutine) with r.Choose. After every operation the reported
// getNodeDeviceSummary() is compared with a model recomputed from the statement of C07.
// See /verif/DESIGN.md §4 C07.
//
// The engine also serves C19 (r.Prop == "C19"): the same histories with a restart fork after
// every bind - see the section "C19" at the end of this file. C07's behaviour is unchanged
// for its own id.

import (
	"context"
	"fmt"
	"io"
	"sort"
	"strings"
	"testing"

	corev1 "k8s.io/api/core/v1"
	"k8s.io/apimachinery/pkg/api/equality"
	"k8s.io/apimachinery/pkg/api/resource"
	metav1 "k8s.io/apimachinery/pkg/apis/meta/v1"
	"k8s.io/apimachinery/pkg/types"
	"k8s.io/client-go/tools/cache"
	"k8s.io/klog/v2"
	fwktype "k8s.io/kube-scheduler/framework"
	schedconfig "k8s.io/kubernetes/pkg/scheduler/apis/config"
	"k8s.io/kubernetes/pkg/scheduler/framework"

	apiext "github.com/koordinator-sh/koordinator/apis/extension"
	schedulingv1alpha1 "github.com/koordinator-sh/koordinator/apis/scheduling/v1alpha1"
	koordclientset "github.com/koordinator-sh/koordinator/pkg/client/clientset/versioned"
	koordinatorinformers "github.com/koordinator-sh/koordinator/pkg/client/informers/externalversions"
	schedulerconfig "github.com/koordinator-sh/koordinator/pkg/scheduler/apis/config"
	"github.com/koordinator-sh/koordinator/pkg/scheduler/frameworkext"
	sim "github.com/koordinator-sh/koordinator/pkg/verifsim"
)

func TestVerifSim(t *testing.T) {
	// the code under test logs every unhealthy device at error level
	klog.LogToStderr(false)
	klog.SetOutput(io.Discard)
	sim.Main(t, &dvEngine{})
}

type dvEngine struct{}

// the informer factory is never started (its Device indexer is filled by the harness), so it needs no client
var dvNoClient koordclientset.Interface

func (dvEngine) Name() string { return "device" }

const (
	dvGPU  = string(schedulingv1alpha1.GPU)
	dvRDMA = string(schedulingv1alpha1.RDMA)
	dvFPGA = string(schedulingv1alpha1.FPGA)

	dvCore  = string(apiext.ResourceGPUCore)
	dvRatio = string(apiext.ResourceGPUMemoryRatio)
	dvMem   = string(apiext.ResourceGPUMemory)
	dvRdmaR = string(apiext.ResourceRDMA)
	dvFpgaR = string(apiext.ResourceFPGA)

	dvNS = "default"
)

var dvTypes = []string{dvGPU, dvRDMA, dvFPGA}

// ---------------------------------------------------------------- plan types

type dvCfg struct {
	Nodes    int     `json:"nodes"`
	Scorer   string  `json:"scorer"`  // least | most | none
	Serial   bool    `json:"serial"`  // every event is delivered and every binding finished before the next op
	OpBias   float64 `json:"op_bias"` // probability of preferring the next API/scheduler op over pending deliveries (lag)
	Coalesce bool    `json:"coalesce"` // relist-style merging of consecutive updates of one pod
	Tomb     bool    `json:"tomb"`     // deletes may arrive as DeletedFinalStateUnknown
	GPUMem   []int64 `json:"gpu_mem"`  // per node: GPU memory size in bytes (a property of the hardware, fixed for the run)
	OddBytes bool    `json:"odd_bytes"` // byte-denominated GPU memory requests that are not a whole percentage of the card
	// Fill: cards of real sizes (16Gi, 24Gi, 40Gi, 80Gi, odd byte counts - none a multiple of 100 bytes), few GPUs per node, and
	// requests denominated in gpu-memory-ratio whose parts fill a card exactly (33/33/34, 1/99, 7/93 ...): the boundary at
	// which the bytes recorded for a percentage must not add up to more than the card has
	Fill bool `json:"fill,omitempty"`
	Split    bool    `json:"split"`     // informer events may be handled between the Filter phase and Reserve of one scheduling cycle
	// per node: GPUs per PCIe switch as the device reporter fills DeviceInfo.Topology (socket / NUMA node / PCIe / bus id)
	// for every device of the node; 0 = the reporter fills no topology. With it the node gets a gpuTopologyScope and GPU
	// requests are served by the topology-aware allocator (allocateByDeviceTopology / allocateFromScope).
	Topo []int `json:"topo,omitempty"`
	// C19 only: how the start-up deliveries of a restarted scheduler are merged ("devices-first": every Device object is
	// handled before the first pod; "any": the Device and the pod informer run independently)
	Order string `json:"order,omitempty"`
}

// dvDev is one device of a node's inventory (one entry of Device.spec.devices).
type dvDev struct {
	T string `json:"t"`
	M int    `json:"m"`
	H bool   `json:"h"`
	P int64  `json:"p"` // total of the percentage resources (gpu-core and gpu-memory-ratio / rdma / fpga)
}

// dvReq is the request of one pod for one device type: N distinct devices, each with the given amounts.
type dvReq struct {
	T     string `json:"t"`
	N     int    `json:"n"`
	Core  int64  `json:"core,omitempty"`
	Ratio int64  `json:"ratio,omitempty"`
	Mem   int64  `json:"mem,omitempty"`
	Amt   int64  `json:"amt,omitempty"`
	Enc   string `json:"enc,omitempty"` // how the request is written in the pod spec
}

type dvOp struct {
	K        string           `json:"k"`
	Node     string           `json:"node,omitempty"`
	Devs     []dvDev          `json:"devs,omitempty"`
	Pod      string           `json:"pod,omitempty"`
	Reqs     []dvReq          `json:"reqs,omitempty"`
	Pick     int              `json:"pick,omitempty"`
	Rollback bool             `json:"rollback,omitempty"`
	Minors   map[string][]int `json:"minors,omitempty"`
	// dryrun: a preemption / reservation-restore evaluation of the pending pod Pod on one node (Node, else the Pick-th
	// node that has a ledger). The pods concerned are ledger pods of that node: first the ones listed in Names (as far
	// as they hold something there), then picks from the rest (Vict, each an index into what is left, sorted by name).
	// Back = how many of the removed pods are reprieved (AddPod) again. Resv: the first pod stands for the reserve pod of
	// a Reservation, the others for pods that were allocated from it (RestoreReservation path; Unm = the reservation
	// does not match the pending pod; Policy = its allocate policy).
	Vict   []int    `json:"vict,omitempty"`
	Names  []string `json:"names,omitempty"`
	Back   int      `json:"back,omitempty"`
	Resv   bool     `json:"resv,omitempty"`
	Unm    bool     `json:"unm,omitempty"`
	Policy string   `json:"policy,omitempty"`
}

// dims returns the per-device amounts the request asks for (resource name -> amount).
func (q *dvReq) dims() map[string]int64 {
	out := map[string]int64{}
	switch q.T {
	case dvGPU:
		if q.Core > 0 {
			out[dvCore] = q.Core
		}
		if q.Ratio > 0 {
			out[dvRatio] = q.Ratio
		}
		if q.Mem > 0 {
			out[dvMem] = q.Mem
		}
	case dvRDMA:
		out[dvRdmaR] = q.Amt
	case dvFPGA:
		out[dvFpgaR] = q.Amt
	}
	return out
}

// podResources writes the request into a container's resource list the way a user would.
func (q *dvReq) podResources(out corev1.ResourceList) {
	n := int64(q.N)
	qty := func(v int64) resource.Quantity { return *resource.NewQuantity(v, resource.DecimalSI) }
	switch q.T {
	case dvRDMA:
		out[apiext.ResourceRDMA] = qty(n * q.Amt)
	case dvFPGA:
		out[apiext.ResourceFPGA] = qty(n * q.Amt)
	case dvGPU:
		switch q.Enc {
		case "koord":
			out[apiext.ResourceGPU] = qty(n * q.Ratio)
		case "nvidia":
			out[apiext.ResourceNvidiaGPU] = qty(n)
		case "core-ratio":
			out[apiext.ResourceGPUCore] = qty(n * q.Core)
			out[apiext.ResourceGPUMemoryRatio] = qty(n * q.Ratio)
		case "ratio-only":
			out[apiext.ResourceGPUMemoryRatio] = qty(n * q.Ratio)
		case "shared":
			out[apiext.ResourceGPUShared] = qty(n)
			out[apiext.ResourceGPUMemoryRatio] = qty(n * q.Ratio)
			if q.Core > 0 {
				out[apiext.ResourceGPUCore] = qty(n * q.Core)
			}
		case "bytes":
			out[apiext.ResourceGPUMemory] = *resource.NewQuantity(n*q.Mem, resource.BinarySI)
			if q.Core > 0 {
				out[apiext.ResourceGPUCore] = qty(n * q.Core)
			}
		case "bytes-shared":
			out[apiext.ResourceGPUShared] = qty(n)
			out[apiext.ResourceGPUMemory] = *resource.NewQuantity(n*q.Mem, resource.BinarySI)
			if q.Core > 0 {
				out[apiext.ResourceGPUCore] = qty(n * q.Core)
			}
		}
	}
}

// ---------------------------------------------------------------- API store (the "API server")

type dvPod struct {
	Name  string
	UID   string
	RV    int
	Reqs  []dvReq
	Node  string
	Ann   string // device-allocated annotation ("" = none)
	Phase corev1.PodPhase
}

type dvDevObj struct {
	RV   int
	UID  string
	Devs []dvDev
}

type dvStore struct {
	cfg    *dvCfg
	rv     int
	uidSeq int
	pods   map[string]*dvPod
	devs   map[string]*dvDevObj
}

func newDvStore(cfg *dvCfg) *dvStore {
	return &dvStore{cfg: cfg, pods: map[string]*dvPod{}, devs: map[string]*dvDevObj{}}
}

type dvEvent struct {
	typ  string // pod | device
	kind string // add | update | delete
	name string
	old  any
	new  any
}

func dvNodeIdx(node string) int {
	i := 0
	fmt.Sscanf(node, "n%d", &i)
	return i
}

// topo returns the number of GPUs per PCIe switch on the node (0: no topology reported).
func (c *dvCfg) topo(node string) int {
	if i := dvNodeIdx(node); i < len(c.Topo) {
		return c.Topo[i]
	}
	return 0
}

func (s *dvStore) gpuMem(node string) int64 {
	i := dvNodeIdx(node)
	if i < len(s.cfg.GPUMem) {
		return s.cfg.GPUMem[i]
	}
	return 16 << 30
}

func (p *dvPod) obj() *corev1.Pod {
	rl := corev1.ResourceList{}
	for i := range p.Reqs {
		p.Reqs[i].podResources(rl)
	}
	pod := &corev1.Pod{
		ObjectMeta: metav1.ObjectMeta{Name: p.Name, Namespace: dvNS, UID: types.UID(p.UID), ResourceVersion: fmt.Sprint(p.RV)},
		Spec: corev1.PodSpec{NodeName: p.Node, Containers: []corev1.Container{{Name: "c",
			Resources: corev1.ResourceRequirements{Requests: rl, Limits: rl.DeepCopy()}}}},
		Status: corev1.PodStatus{Phase: p.Phase},
	}
	if p.Ann != "" {
		pod.Annotations = map[string]string{apiext.AnnotationDeviceAllocated: p.Ann}
	}
	return pod
}

func dvDevResources(node string, d dvDev, gpuMem int64) corev1.ResourceList {
	if d.P == 0 && d.M%2 == 1 {
		return corev1.ResourceList{} // a device that reports nothing
	}
	switch d.T {
	case dvGPU:
		return corev1.ResourceList{
			apiext.ResourceGPUCore:        *resource.NewQuantity(d.P, resource.DecimalSI),
			apiext.ResourceGPUMemoryRatio: *resource.NewQuantity(d.P, resource.DecimalSI),
			apiext.ResourceGPUMemory:      *resource.NewQuantity(gpuMem*d.P/100, resource.BinarySI),
		}
	case dvRDMA:
		return corev1.ResourceList{apiext.ResourceRDMA: *resource.NewQuantity(d.P, resource.DecimalSI)}
	default:
		return corev1.ResourceList{apiext.ResourceFPGA: *resource.NewQuantity(d.P, resource.DecimalSI)}
	}
}

func (s *dvStore) devObj(node string, o *dvDevObj) *schedulingv1alpha1.Device {
	d := &schedulingv1alpha1.Device{ObjectMeta: metav1.ObjectMeta{Name: node, UID: types.UID(o.UID), ResourceVersion: fmt.Sprint(o.RV)}}
	for _, x := range o.Devs {
		m := int32(x.M)
		info := schedulingv1alpha1.DeviceInfo{
			Type: schedulingv1alpha1.DeviceType(x.T), Minor: &m, UUID: fmt.Sprintf("%s-%s-%d", node, x.T, x.M), Health: x.H,
			Resources: dvDevResources(node, x, s.gpuMem(node)),
		}
		if k := s.cfg.topo(node); k > 0 {
			// k devices per PCIe switch, two switches per NUMA node, one NUMA node per socket
			pcie := x.M / k
			bus := 0x10*(pcie+1) + 1 + x.M%k
			info.Topology = &schedulingv1alpha1.DeviceTopology{SocketID: int32(pcie / 2), NodeID: int32(pcie / 2),
				PCIEID: fmt.Sprintf("0000:%02x", 0x10*(pcie+1)), BusID: fmt.Sprintf("0000:%02x:00.0", bus)}
		}
		d.Spec.Devices = append(d.Spec.Devices, info)
	}
	return d
}

// annotation builds the device-allocated annotation another scheduler instance would have
// written for the given request on the given minors.
func (s *dvStore) annotation(node string, reqs []dvReq, minors map[string][]int) string {
	allocs := apiext.DeviceAllocations{}
	for i := range reqs {
		q := &reqs[i]
		ms := minors[q.T]
		for k := 0; k < q.N && k < len(ms); k++ {
			rl := corev1.ResourceList{}
			for d, v := range q.dims() {
				f := resource.DecimalSI
				if d == dvMem {
					f = resource.BinarySI
				}
				rl[corev1.ResourceName(d)] = *resource.NewQuantity(v, f)
			}
			if q.T == dvGPU {
				t := s.gpuMem(node)
				if q.Mem == 0 {
					rl[apiext.ResourceGPUMemory] = *resource.NewQuantity(q.Ratio*t/100, resource.BinarySI)
				} else if q.Ratio == 0 {
					rl[apiext.ResourceGPUMemoryRatio] = *resource.NewQuantity(q.Mem*100/t, resource.DecimalSI)
				}
			}
			allocs[schedulingv1alpha1.DeviceType(q.T)] = append(allocs[schedulingv1alpha1.DeviceType(q.T)],
				&apiext.DeviceAllocation{Minor: int32(ms[k]), Resources: rl})
		}
	}
	if len(allocs) == 0 {
		return ""
	}
	holder := &corev1.Pod{}
	if err := apiext.SetDeviceAllocations(holder, allocs); err != nil {
		panic(err)
	}
	return holder.Annotations[apiext.AnnotationDeviceAllocated]
}

func dvDistinct(minors map[string][]int, reqs []dvReq) bool {
	for i := range reqs {
		ms := minors[reqs[i].T]
		if len(ms) < reqs[i].N {
			return false
		}
		seen := map[int]bool{}
		for _, m := range ms[:reqs[i].N] {
			if seen[m] || m < 0 {
				return false
			}
			seen[m] = true
		}
	}
	return true
}

// apply executes one API-level operation; it returns the watch events it produces, or
// ok=false when the operation is not applicable in the current state. gen=true is the
// generator's optimistic mode (it cannot know which pods the scheduler will have bound).
func (s *dvStore) apply(op *dvOp, gen bool) (evs []dvEvent, ok bool) {
	switch op.K {
	case "dev_set":
		if dvNodeIdx(op.Node) >= s.cfg.Nodes {
			return nil, false
		}
		seen := map[string]bool{}
		for _, d := range op.Devs {
			k := fmt.Sprintf("%s/%d", d.T, d.M)
			if seen[k] || d.M < 0 || d.M > 15 {
				return nil, false
			}
			seen[k] = true
		}
		s.rv++
		old := s.devs[op.Node]
		if old == nil {
			s.uidSeq++
			o := &dvDevObj{RV: s.rv, UID: fmt.Sprintf("dev-%d", s.uidSeq), Devs: op.Devs}
			s.devs[op.Node] = o
			return []dvEvent{{typ: "device", kind: "add", name: op.Node, new: s.devObj(op.Node, o)}}, true
		}
		o := &dvDevObj{RV: s.rv, UID: old.UID, Devs: op.Devs}
		s.devs[op.Node] = o
		return []dvEvent{{typ: "device", kind: "update", name: op.Node, old: s.devObj(op.Node, old), new: s.devObj(op.Node, o)}}, true
	case "dev_del":
		old := s.devs[op.Node]
		if old == nil {
			return nil, false
		}
		delete(s.devs, op.Node)
		return []dvEvent{{typ: "device", kind: "delete", name: op.Node, old: s.devObj(op.Node, old)}}, true
	case "pod_create":
		if s.pods[op.Pod] != nil || op.Pod == "" || len(op.Reqs) == 0 {
			return nil, false
		}
		s.rv++
		s.uidSeq++
		p := &dvPod{Name: op.Pod, UID: fmt.Sprintf("uid-%d", s.uidSeq), RV: s.rv, Reqs: op.Reqs, Phase: corev1.PodPending}
		s.pods[p.Name] = p
		return []dvEvent{{typ: "pod", kind: "add", name: p.Name, new: p.obj()}}, true
	case "pod_foreign": // a pod bound by another scheduler instance: arrives assigned, with its allocation recorded
		if s.pods[op.Pod] != nil || op.Pod == "" || len(op.Reqs) == 0 || dvNodeIdx(op.Node) >= s.cfg.Nodes || !dvDistinct(op.Minors, op.Reqs) {
			return nil, false
		}
		s.rv++
		s.uidSeq++
		p := &dvPod{Name: op.Pod, UID: fmt.Sprintf("uid-%d", s.uidSeq), RV: s.rv, Reqs: op.Reqs, Node: op.Node, Phase: corev1.PodRunning}
		p.Ann = s.annotation(op.Node, op.Reqs, op.Minors)
		s.pods[p.Name] = p
		return []dvEvent{{typ: "pod", kind: "add", name: p.Name, new: p.obj()}}, true
	case "pod_reannot": // somebody rewrites the recorded allocation of a bound pod (other minors)
		old := s.pods[op.Pod]
		if old == nil || !dvDistinct(op.Minors, old.Reqs) {
			return nil, false
		}
		if !gen && (old.Node == "" || old.Ann == "" || old.Phase == corev1.PodSucceeded) {
			return nil, false
		}
		if gen {
			return nil, true
		}
		p := *old
		p.Ann = s.annotation(old.Node, old.Reqs, op.Minors)
		if p.Ann == old.Ann {
			return nil, false
		}
		s.rv++
		p.RV = s.rv
		s.pods[p.Name] = &p
		return []dvEvent{{typ: "pod", kind: "update", name: p.Name, old: old.obj(), new: p.obj()}}, true
	case "pod_term":
		old := s.pods[op.Pod]
		if old == nil {
			return nil, false
		}
		if gen {
			return nil, true
		}
		if old.Node == "" || old.Phase == corev1.PodSucceeded {
			return nil, false
		}
		p := *old
		p.Phase = corev1.PodSucceeded
		s.rv++
		p.RV = s.rv
		s.pods[p.Name] = &p
		return []dvEvent{{typ: "pod", kind: "update", name: p.Name, old: old.obj(), new: p.obj()}}, true
	case "pod_delete":
		old := s.pods[op.Pod]
		if old == nil {
			return nil, false
		}
		delete(s.pods, op.Pod)
		return []dvEvent{{typ: "pod", kind: "delete", name: old.Name, old: old.obj()}}, true
	case "pod_dup": // the same object is announced again as an add (initial list + watch overlap, forced sync)
		cur := s.pods[op.Pod]
		if cur == nil {
			return nil, false
		}
		return []dvEvent{{typ: "pod", kind: "add", name: cur.Name, new: cur.obj()}}, true
	case "pod_resync":
		cur := s.pods[op.Pod]
		if cur == nil {
			return nil, false
		}
		return []dvEvent{{typ: "pod", kind: "update", name: cur.Name, old: cur.obj(), new: cur.obj()}}, true
	}
	return nil, false
}

// ---------------------------------------------------------------- generation

func dvGenInventory(g *sim.Rng, thorough, fill bool) []dvDev {
	var out []dvDev
	for _, t := range dvTypes {
		if fill && t == dvGPU {
			// few healthy cards, so that the parts of a split meet on one card
			for i, n := 0, g.PickInt(1, 1, 2, 2, 3); i < n; i++ {
				out = append(out, dvDev{T: t, M: i, H: true, P: 100})
			}
			continue
		}
		n := 0
		switch g.Intn(8) {
		case 0:
			n = 0
		case 1:
			n = 1
		case 2:
			n = 2
		case 3, 4:
			n = g.Range(2, 4)
		default:
			n = g.Range(1, 8)
		}
		if !thorough && t != dvGPU && n > 4 {
			n = g.Range(0, 4)
		}
		minor := 0
		for i := 0; i < n; i++ {
			if g.Bool(0.1) {
				minor++ // a gap in the minor numbers
			}
			d := dvDev{T: t, M: minor, H: !g.Bool(0.1), P: 100}
			if g.Bool(0.08) {
				d.P = 0
			} else if t != dvGPU && g.Bool(0.1) {
				d.P = 50
			}
			out = append(out, d)
			minor++
		}
	}
	return out
}

func dvMutateInventory(g *sim.Rng, cur []dvDev) []dvDev {
	out := append([]dvDev(nil), cur...)
	for k := g.Range(1, 2); k > 0; k-- {
		switch x := g.Intn(10); {
		case x < 3 && len(out) > 0: // health flips
			i := g.Intn(len(out))
			out[i].H = !out[i].H
		case x < 5 && len(out) > 0: // a device disappears from the report
			i := g.Intn(len(out))
			out = append(out[:i:i], out[i+1:]...)
		case x < 7: // a device (re)appears
			t := dvTypes[g.Intn(len(dvTypes))]
			used := map[int]bool{}
			for _, d := range out {
				if d.T == t {
					used[d.M] = true
				}
			}
			for m := 0; m < 9; m++ {
				if !used[m] {
					out = append(out, dvDev{T: t, M: m, H: true, P: 100})
					break
				}
			}
		case x < 8 && len(out) > 0: // totals change
			i := g.Intn(len(out))
			if out[i].T == dvGPU {
				out[i].P = g.PickI64(0, 100)
			} else {
				out[i].P = g.PickI64(0, 50, 100)
			}
		case x < 9: // everything healthy again
			for i := range out {
				out[i].H = true
				if out[i].P == 0 {
					out[i].P = 100
				}
			}
		default: // a whole type disappears
			t := dvTypes[g.Intn(len(dvTypes))]
			var o2 []dvDev
			for _, d := range out {
				if d.T != t {
					o2 = append(o2, d)
				}
			}
			out = o2
		}
	}
	sort.SliceStable(out, func(i, j int) bool {
		if out[i].T != out[j].T {
			return out[i].T < out[j].T
		}
		return out[i].M < out[j].M
	})
	return out
}

// dvSplits: ways to hand out one card completely in whole percentages (most parts are not a whole number of bytes of a
// card whose size is not a multiple of 100).
var dvSplits = [][]int64{{33, 33, 34}, {1, 99}, {7, 93}, {30, 70}, {40, 60}, {10, 20, 70}, {67, 33}, {13, 87}, {3, 97}, {50, 50}, {20, 30, 50}, {11, 22, 67}, {99, 1}, {34, 66}}

// dvRatioReq: one GPU, the given percentage of its memory (and, except for "ratio-only", of its cores), denominated in gpu-memory-ratio.
func dvRatioReq(g *sim.Rng, part int64) dvReq {
	q := dvReq{T: dvGPU, N: 1, Ratio: part, Core: part, Enc: g.Pick("koord", "core-ratio", "core-ratio", "shared", "ratio-only")}
	if q.Enc == "ratio-only" {
		q.Core = 0
	}
	return q
}

func dvGenReq(g *sim.Rng, t string, cfg *dvCfg, gpuMem int64) dvReq {
	q := dvReq{T: t, N: 1}
	if cfg.Fill && t == dvGPU && g.Bool(0.6) {
		split := dvSplits[g.Intn(len(dvSplits))]
		return dvRatioReq(g, split[g.Intn(len(split))])
	}
	frac := func() int64 {
		if cfg.OddBytes && g.Bool(0.4) {
			// what is left of a card after a byte-denominated request
			return g.PickI64(1, 67, 71, 72, 86, 94, 100-(1<<30)*100/gpuMem, 100-(3<<30)*100/gpuMem, 100-(5<<30)*100/gpuMem, 100-(1000<<20)*100/gpuMem)
		}
		return g.PickI64(1, 10, 20, 25, 30, 33, 40, 50, 50, 60, 70, 75, 99, 100)
	}
	multi := func() int { return g.PickInt(2, 2, 2, 3, 3, 4, 4, 8) }
	if t != dvGPU {
		switch g.Intn(3) {
		case 0:
			q.Amt = 100
		case 1:
			q.Amt = frac()
		default:
			q.N, q.Amt = multi(), 100
		}
		return q
	}
	switch g.Intn(9) {
	case 0: // whole cards, nvidia.com/gpu
		q.Enc, q.Core, q.Ratio = "nvidia", 100, 100
		if g.Bool(0.5) {
			q.N = multi()
		}
	case 1: // whole cards, koordinator.sh/gpu
		q.Enc, q.Core, q.Ratio = "koord", 100, 100
		if g.Bool(0.5) {
			q.N = multi()
		}
	case 2: // a fraction of one card, koordinator.sh/gpu
		q.Enc = "koord"
		q.Ratio = frac()
		q.Core = q.Ratio
	case 3: // separate core and memory ratio
		q.Enc, q.Core, q.Ratio = "core-ratio", frac(), frac()
	case 4: // several cards via gpu-memory-ratio
		q.Enc, q.N, q.Ratio = "core-ratio", multi(), 100
		q.Core = 100
		if q.N%4 == 0 && g.Bool(0.3) {
			q.Core = g.PickI64(25, 50, 75)
		} else if q.N%2 == 0 && g.Bool(0.3) {
			q.Core = 50
		}
	case 5:
		q.Enc, q.Ratio = "ratio-only", frac()
		if g.Bool(0.3) {
			q.N, q.Ratio = multi(), 100
		}
	case 6: // gpu.shared: N cards, each a fraction
		q.Enc, q.N, q.Ratio = "shared", g.PickInt(1, 2, 2, 3, 4), frac()
		if g.Bool(0.5) {
			q.Core = frac()
		}
	default: // memory in bytes
		q.Enc = "bytes"
		if g.Bool(0.3) {
			q.Enc, q.N = "bytes-shared", g.PickInt(1, 2, 3)
		}
		if cfg.OddBytes {
			q.Mem = g.PickI64(1<<30, 3<<30, 5<<30, 1000<<20, gpuMem/3, gpuMem/7, gpuMem*29/100, gpuMem-1)
		} else {
			// amounts whose share of the card is a whole percentage that binary floating point represents exactly
			q.Mem = gpuMem * g.PickI64(25, 50, 75, 100) / 100
		}
		if g.Bool(0.4) {
			q.Core = frac()
		}
	}
	return q
}

func (dvEngine) Generate(p *sim.Plan, g *sim.Rng) {
	thorough := p.Tier == "thorough"
	cfg := dvCfg{Nodes: g.Range(1, 3), Scorer: g.Pick("least", "most", "none"), Serial: g.Bool(0.2),
		OpBias: []float64{0, 0.3, 0.6}[g.Intn(3)], Coalesce: g.Bool(0.3), Tomb: g.Bool(0.3), OddBytes: g.Bool(0.15)}
	cfg.Split = !cfg.Serial && g.Bool(0.5)
	cfg.Fill = !cfg.OddBytes && g.Bool(0.3)
	if cfg.Fill && g.Bool(0.6) {
		cfg.Scorer = "most" // packs shares onto the fullest card that still fits
	}
	for i := 0; i < cfg.Nodes; i++ {
		if cfg.Fill {
			cfg.GPUMem = append(cfg.GPUMem, g.PickI64(16<<30, 16<<30, 24<<30, 40<<30, 80<<30, 24564<<20, 11441<<20, 12884901889, 34359738367, 8589934591, 16000000001))
		} else {
			cfg.GPUMem = append(cfg.GPUMem, g.PickI64(16<<30, 80<<30, 24564<<20, 8000000000, 40<<30))
		}
	}
	if g.Bool(0.25) {
		// GPU topology runs: most nodes report the topology of every device
		for i := 0; i < cfg.Nodes; i++ {
			k := 0
			if i == 0 || g.Bool(0.7) {
				k = g.PickInt(1, 2, 2, 4)
			}
			cfg.Topo = append(cfg.Topo, k)
		}
	}
	if g.Bool(0.8) {
		p.FaultRate = []float64{0.05, 0.15, 0.3}[g.Intn(3)]
		for _, k := range []string{"patch-err", "bind-err", "bind-lost-ack"} {
			if g.Bool(0.5) {
				p.Faults = append(p.Faults, k)
			}
		}
	}
	nOps := g.Range(8, 40)
	if thorough {
		nOps = g.Range(8, 90)
	}
	st := newDvStore(&cfg)
	var ops []dvOp
	add := func(op dvOp) bool {
		if op.K == "schedule" {
			ops = append(ops, op)
			return true
		}
		if _, ok := st.apply(&op, true); ok {
			ops = append(ops, op)
			return true
		}
		return false
	}
	nodeName := func(i int) string { return fmt.Sprintf("n%d", i) }
	inv := map[string][]dvDev{}
	for i := 0; i < cfg.Nodes; i++ {
		if g.Bool(0.93) {
			inv[nodeName(i)] = dvGenInventory(g, thorough, cfg.Fill)
			add(dvOp{K: "dev_set", Node: nodeName(i), Devs: inv[nodeName(i)]})
		}
	}
	var pods []string
	scheduled := map[string]bool{}
	np, nf := 0, 0
	pickPod := func() string {
		if len(pods) == 0 {
			return ""
		}
		return pods[g.Intn(len(pods))]
	}
	// request types are mostly ones some node reports
	haveType := func(t string) bool {
		for _, ds := range inv {
			for _, d := range ds {
				if d.T == t {
					return true
				}
			}
		}
		return false
	}
	recreate := map[string]int{}
	genReqs := func(node string) []dvReq {
		mem := st.gpuMem(node)
		perm := g.Perm(3)
		n := 1
		if g.Bool(0.25) {
			n = 2
		}
		var reqs []dvReq
		// bias towards GPU
		first := dvTypes[perm[0]]
		if g.Bool(0.4) {
			first = dvGPU
		}
		for k := 0; k < 3 && !haveType(first) && !g.Bool(0.1); k++ {
			first = dvTypes[g.Intn(3)]
		}
		reqs = append(reqs, dvGenReq(g, first, &cfg, mem))
		if n == 2 {
			for _, i := range perm {
				if dvTypes[i] != first {
					reqs = append(reqs, dvGenReq(g, dvTypes[i], &cfg, mem))
					break
				}
			}
		}
		return reqs
	}
	pickMinors := func(node string, reqs []dvReq) map[string][]int {
		out := map[string][]int{}
		for _, q := range reqs {
			var have []int
			for _, d := range inv[node] {
				if d.T == q.T {
					have = append(have, d.M)
				}
			}
			if len(have) >= q.N && !g.Bool(0.1) {
				perm := g.Perm(len(have))
				for _, i := range perm[:q.N] {
					out[q.T] = append(out[q.T], have[i])
				}
			} else {
				out[q.T] = g.Perm(8)[:q.N] // devices the node does not (or no longer) report
			}
			sort.Ints(out[q.T])
		}
		return out
	}

	for len(ops) < nOps {
		// a deleted Device object is normally recreated by the koordlet soon
		for _, node := range []string{"n0", "n1", "n2"} {
			if c, ok := recreate[node]; ok {
				if c <= 0 {
					delete(recreate, node)
					add(dvOp{K: "dev_set", Node: node, Devs: inv[node]})
				} else {
					recreate[node] = c - 1
				}
			}
		}
		if cfg.Fill && g.Bool(0.15) {
			// pods whose shares add up to one card, created together and tried one after the other
			split := dvSplits[g.Intn(len(dvSplits))]
			pick := g.Intn(6)
			var names []string
			for _, part := range split {
				name := fmt.Sprintf("p%d", np)
				np++
				if add(dvOp{K: "pod_create", Pod: name, Reqs: []dvReq{dvRatioReq(g, part)}}) {
					pods = append(pods, name)
					names = append(names, name)
				}
			}
			for _, name := range names {
				add(dvOp{K: "schedule", Pod: name, Pick: pick})
				scheduled[name] = true
			}
			continue
		}
		switch x := g.Intn(100); {
		case x < 22:
			name := fmt.Sprintf("p%d", np)
			if len(pods) > 0 && g.Bool(0.15) {
				name = pickPod() // a name is reused once its previous owner is gone
			} else {
				np++
			}
			// byte amounts are chosen against the memory size of a random node
			if add(dvOp{K: "pod_create", Pod: name, Reqs: genReqs(nodeName(g.Intn(cfg.Nodes)))}) {
				pods = append(pods, name)
			}
		case x < 52:
			pod := pickPod()
			// the queue mostly holds pods that were not tried yet
			for k := 0; k < 4 && pod != "" && (scheduled[pod] || st.pods[pod] == nil) && !g.Bool(0.15); k++ {
				pod = pickPod()
			}
			if pod != "" {
				add(dvOp{K: "schedule", Pod: pod, Pick: g.Intn(6), Rollback: g.Bool(0.2)})
				scheduled[pod] = true
			}
		case x < 60:
			if pod := pickPod(); pod != "" {
				add(dvOp{K: "pod_delete", Pod: pod})
			}
		case x < 65:
			if pod := pickPod(); pod != "" && scheduled[pod] {
				add(dvOp{K: "pod_term", Pod: pod})
			}
		case x < 78:
			node := nodeName(g.Intn(cfg.Nodes))
			if _, ok := inv[node]; !ok || g.Bool(0.1) {
				inv[node] = dvGenInventory(g, thorough, cfg.Fill)
			} else {
				inv[node] = dvMutateInventory(g, inv[node])
			}
			add(dvOp{K: "dev_set", Node: node, Devs: inv[node]})
		case x < 81:
			node := nodeName(g.Intn(cfg.Nodes))
			if add(dvOp{K: "dev_del", Node: node}) && g.Bool(0.8) {
				recreate[node] = g.Range(0, 4)
			}
		case x < 87:
			if pod := pickPod(); pod != "" {
				add(dvOp{K: "pod_dup", Pod: pod})
			}
		case x < 91:
			if pod := pickPod(); pod != "" {
				add(dvOp{K: "pod_resync", Pod: pod})
			}
		case x < 96:
			name := fmt.Sprintf("f%d", nf)
			nf++
			node := nodeName(g.Intn(cfg.Nodes))
			reqs := genReqs(node)
			// another scheduler instance mostly hands out devices the node reports
			for k := 0; k < 4 && !g.Bool(0.1); k++ {
				ok := true
				for _, q := range reqs {
					n := 0
					for _, d := range inv[node] {
						if d.T == q.T {
							n++
						}
					}
					if n < q.N {
						ok = false
					}
				}
				if ok {
					break
				}
				reqs = genReqs(node)
			}
			if add(dvOp{K: "pod_foreign", Pod: name, Node: node, Reqs: reqs, Minors: pickMinors(node, reqs)}) {
				pods = append(pods, name)
				scheduled[name] = true
			}
		default:
			if pod := pickPod(); pod != "" && scheduled[pod] {
				if cur := st.pods[pod]; cur != nil {
					node := cur.Node
					if node == "" {
						node = nodeName(g.Intn(cfg.Nodes))
					}
					add(dvOp{K: "pod_reannot", Pod: pod, Minors: pickMinors(node, cur.Reqs)})
				}
			}
		}
	}
	// Preemption / reservation-restore dry runs. Drawn after the workload and inserted into it, so that the rest of a
	// seed's history does not depend on them.
	insert := func(pos int, in ...dvOp) {
		if pos > len(ops) {
			pos = len(ops)
		}
		ops = append(ops[:pos:pos], append(in, ops[pos:]...)...)
	}
	for k := g.PickInt(0, 1, 1, 2, 2, 3, 4); k > 0; k-- {
		op := dvOp{K: "dryrun", Pod: pickPod(), Pick: g.Intn(6), Back: g.Intn(4)}
		for n := g.PickInt(1, 2, 3, 3, 4, 5, 8); n > 0; n-- {
			op.Vict = append(op.Vict, g.Intn(8))
		}
		if g.Bool(0.3) {
			op.Resv, op.Unm, op.Policy = true, g.Bool(0.25), g.Pick("", "", "Aligned", "Restricted")
		}
		insert(g.Range(len(ops)/3, len(ops)), op)
	}
	if g.Bool(0.3) {
		// A Reservation placed by another scheduler instance and two pods that instance allocated from it: the
		// reserve pod holds a whole GPU, each owner half of the same GPU (all three are entries of the node's ledger).
		node := nodeName(g.Intn(cfg.Nodes))
		var gpus []int
		for _, d := range inv[node] {
			if d.T == dvGPU {
				gpus = append(gpus, d.M)
			}
		}
		if len(gpus) > 0 {
			m := gpus[g.Intn(len(gpus))]
			pos := g.Range(len(ops)/3, len(ops))
			share := g.PickI64(50, 50, 30, 25)
			var in []dvOp
			names := []string{fmt.Sprintf("r%d", nf), fmt.Sprintf("r%d", nf+1), fmt.Sprintf("r%d", nf+2)}
			for i, name := range names {
				q := dvReq{T: dvGPU, N: 1, Enc: "koord", Core: share, Ratio: share}
				if i == 0 {
					q.Core, q.Ratio = 100, 100
				}
				in = append(in, dvOp{K: "pod_foreign", Pod: name, Node: node, Reqs: []dvReq{q}, Minors: map[string][]int{dvGPU: {m}}})
			}
			insert(pos, in...)
			dry := dvOp{K: "dryrun", Pod: pickPod(), Node: node, Names: names, Resv: !g.Bool(0.2), Back: g.Intn(3), Policy: g.Pick("", "Aligned", "Restricted")}
			insert(g.Range(pos+3, len(ops)), dry)
		}
	}
	if p.Prop == "C19" {
		// drawn last, so that the workload of a seed does not depend on it
		cfg.Order = g.Pick("devices-first", "any", "any")
	}
	p.SetCfg(cfg)
	p.SetOps(ops)
}

// ---------------------------------------------------------------- framework stubs

type dvSnapshot struct {
	infos map[string]*framework.NodeInfo
	names []string
}

func (f *dvSnapshot) NodeInfos() fwktype.NodeInfoLister       { return f }
func (f *dvSnapshot) StorageInfos() fwktype.StorageInfoLister { return f }
func (f *dvSnapshot) IsPVCUsedByPods(key string) bool         { return false }
func (f *dvSnapshot) List() ([]fwktype.NodeInfo, error) {
	var out []fwktype.NodeInfo
	for _, n := range f.names {
		out = append(out, f.infos[n])
	}
	return out, nil
}
func (f *dvSnapshot) HavePodsWithAffinityList() ([]fwktype.NodeInfo, error)             { return nil, nil }
func (f *dvSnapshot) HavePodsWithRequiredAntiAffinityList() ([]fwktype.NodeInfo, error) { return nil, nil }
func (f *dvSnapshot) Get(nodeName string) (fwktype.NodeInfo, error) {
	ni, ok := f.infos[nodeName]
	if !ok {
		return nil, fmt.Errorf("unable to find node: %s", nodeName)
	}
	return ni, nil
}

// dvHandle is the part of the scheduler framework handle the plugin touches on the
// exercised paths; any other method panics (nil embedded interface) and is reported as
// harness trouble.
type dvHandle struct {
	frameworkext.ExtendedHandle
	snapshot  *dvSnapshot
	koordFac  koordinatorinformers.SharedInformerFactory
	nominator frameworkext.ReservationNominator
	rcache    *dvResvCache // set only while a reservation-restore dry run is evaluated
}

func (h *dvHandle) SnapshotSharedLister() fwktype.SharedLister { return h.snapshot }
func (h *dvHandle) KoordinatorSharedInformerFactory() koordinatorinformers.SharedInformerFactory {
	return h.koordFac
}
func (h *dvHandle) GetReservationNominator() frameworkext.ReservationNominator { return h.nominator }
func (h *dvHandle) GetReservationCache() frameworkext.ReservationCache {
	if h.rcache == nil {
		return nil
	}
	return h.rcache
}

// dvResvCache stands for the reservation plugin's cache during a dry run: which reservation a pod was allocated from.
type dvResvCache struct {
	node  string
	byPod map[string]*frameworkext.ReservationInfo
}

func (c *dvResvCache) DeleteReservation(r *schedulingv1alpha1.Reservation) *frameworkext.ReservationInfo {
	return nil
}
func (c *dvResvCache) GetReservationInfoByPod(pod *corev1.Pod, nodeName string) *frameworkext.ReservationInfo {
	if nodeName != c.node {
		return nil
	}
	return c.byPod[pod.Name]
}

// ---------------------------------------------------------------- execution

type dvAlloc map[string]map[int]map[string]int64 // device type -> minor -> resource -> amount

type dvHeld struct {
	node  string
	uid   string
	alloc dvAlloc
}

type dvTask struct {
	pod      *corev1.Pod
	name     string
	uid      string
	node     string
	cs       fwktype.CycleState
	rollback bool
	alloc    dvAlloc // what Reserve committed in this cycle
	phase    int     // 0 = binding cycle not run yet, 1 = failed, Unreserve pending
}

type dvKey struct {
	t   string
	m   int
	res string
}

type dvOverKey struct {
	node string
	k    dvKey
}

type dvOpen struct {
	op   dvOp
	pod  *corev1.Pod
	reqs []dvReq
	cs   fwktype.CycleState
	node string
}

type dvSim struct {
	r   *sim.Run
	cfg dvCfg
	st  *dvStore
	pl  *Plugin
	h   *dvHandle

	podQ, devQ []dvEvent
	delivered  map[string]*corev1.Pod // the pod informer's store (what the scheduler sees)
	reqsByUID  map[string][]dvReq
	tasks      []*dvTask
	open       *dvOpen // a scheduling cycle that passed Filter and has not called Reserve yet
	inFlight   map[string]bool
	assumed    map[string]bool // pod UIDs this scheduler has assumed (Reserve succeeded, not forgotten): never scheduled again

	// the model (written from the statement of C07)
	nodes    []string
	known    map[string]bool   // the cache has a ledger for the node
	inv      map[string]dvAlloc // delivered inventory: node -> type -> minor -> resource -> total (unhealthy = zeros)
	bound    map[string]*dvHeld // assigned live pods as delivered by the pod informer (with a recorded allocation)
	reserved map[string]*dvHeld // allocations committed by Reserve and not rolled back
	overOK   map[dvOverKey]bool // (node, type, minor, resource) where used > total is explained by the history
	steps    int

	// C19 (restart) mode
	c19      bool
	liveBad  bool            // the live ledger failed one of C07's oracles in this run: not used as a reference any more
	c07class map[string]bool // history classes of the findings recorded for C07 that this run's history meets
	forks    int
	probeSeq int
}

// fail reports a violation of one of C07's oracles. Under C19 these oracles are not claimed (they are C07's and
// `check C07` reports them): the run goes on, but the live ledger is no longer trusted as the reference of the
// restart comparison (the rebuilt state is still compared with what the API objects say).
func (s *dvSim) fail(oracle, sigDetail, format string, args ...any) {
	if s.c19 {
		if !s.liveBad {
			s.r.Probe("c19:live-ledger-failed-a-C07-oracle(run)")
			if len(s.c07class) == 0 {
				// would be a violation of C07 that no recorded finding explains (reported by `check C07`, not here)
				s.r.Probe("c19:live-ledger-failed-a-C07-oracle-outside-the-recorded-C07-history-classes(run)")
			}
		}
		s.liveBad = true
		s.r.Probe("c19:C07-oracle-failed(not claimed here):" + oracle)
		return
	}
	s.r.Fail(oracle, sigDetail, format, args...)
}

// oracleEval counts evaluations of the oracles of the property under check only.
func (s *dvSim) oracleEval() {
	if !s.c19 {
		s.r.OracleEval()
	}
}

// tag marks a history class of a finding recorded for C07. Under C19 it is not a signature tag: the classes in which
// the live ledger is known to be wrong only switch the live comparison off (counted).
func (s *dvSim) tag(name string) {
	if s.c19 {
		if !s.c07class[name] {
			s.c07class[name] = true
			s.r.Probe("c19:C07-history-class:" + name)
		}
		return
	}
	s.r.Tag(name)
}

func dvConv(a apiext.DeviceAllocations) dvAlloc {
	out := dvAlloc{}
	for t, list := range a {
		for _, x := range list {
			if out[string(t)] == nil {
				out[string(t)] = map[int]map[string]int64{}
			}
			rs := map[string]int64{}
			for k, q := range x.Resources {
				if v := q.Value(); v != 0 {
					rs[string(k)] = v
				}
			}
			out[string(t)][int(x.Minor)] = rs
		}
	}
	return out
}

func dvAllocEq(a, b dvAlloc) bool { return dvAllocStr(a) == dvAllocStr(b) }

func dvAllocStr(a dvAlloc) string {
	var parts []string
	for t, ms := range a {
		for m, rs := range ms {
			for k, v := range rs {
				if v != 0 {
					parts = append(parts, fmt.Sprintf("%s/%d/%s=%d", t, m, k, v))
				}
			}
			if len(rs) == 0 {
				parts = append(parts, fmt.Sprintf("%s/%d", t, m))
			}
		}
	}
	sort.Strings(parts)
	return strings.Join(parts, " ")
}

// expected returns what the pod holds on the given node: the allocation of the bound pod as the informer delivered
// it, else a reservation the scheduler committed there and has not rolled back. (After a lost bind acknowledgement a
// pod can be bound on one node and - in a second, doomed cycle - reserved on another: both ledgers count it. On the
// same node the ledger has one entry per pod name and the delivered allocation is the truth.)
func (s *dvSim) expected(pod, node string) *dvHeld {
	if b := s.bound[pod]; b != nil && b.node == node {
		return b
	}
	if h := s.reserved[pod]; h != nil && h.node == node {
		return h
	}
	return nil
}

func (s *dvSim) podNames() []string {
	seen := map[string]bool{}
	var out []string
	for p := range s.bound {
		if !seen[p] {
			seen[p] = true
			out = append(out, p)
		}
	}
	for p := range s.reserved {
		if !seen[p] {
			seen[p] = true
			out = append(out, p)
		}
	}
	sort.Strings(out)
	return out
}

// modelUsed: in use = sum of the live pods' allocations on each device.
func (s *dvSim) modelUsed(node string) dvAlloc { return s.modelUsedWithout(node, nil) }

// modelUsedWithout: the same sum, leaving out the named pods (what would be in use if they were gone).
func (s *dvSim) modelUsedWithout(node string, gone map[string]bool) dvAlloc {
	out := dvAlloc{}
	for _, p := range s.podNames() {
		h := s.expected(p, node)
		if h == nil || gone[p] {
			continue
		}
		for t, ms := range h.alloc {
			if out[t] == nil {
				out[t] = map[int]map[string]int64{}
			}
			for m, rs := range ms {
				if out[t][m] == nil {
					out[t][m] = map[string]int64{}
				}
				for k, v := range rs {
					out[t][m][k] += v
				}
			}
		}
	}
	return out
}

// markOver is called after an event that may legitimately leave a device over-committed (a delivered
// inventory refresh; an allocation that did not pass this scheduler's allocator): "used <= total" is
// suspended for exactly the (device, resource) pairs that are over-committed right now.
func (s *dvSim) markOver(node, cause string) {
	used := s.modelUsed(node)
	for t, ms := range used {
		for m, rs := range ms {
			for k, u := range rs {
				key := dvOverKey{node, dvKey{t, m, k}}
				if u > s.inv[node][t][m][k] && !s.overOK[key] {
					s.overOK[key] = true
					s.r.Probe("used-le-total-suspended:" + cause)
				}
			}
		}
	}
}

// feasible is the brute-force reference for "a set of N distinct permitted devices, each with
// at least the requested amount free, exists" (for every requested device type).
func (s *dvSim) feasible(node string, reqs []dvReq) bool { return s.feasibleWithout(node, reqs, nil) }

// feasibleWithout: the same question for the node as it would be without the named pods.
func (s *dvSim) feasibleWithout(node string, reqs []dvReq, gone map[string]bool) bool {
	used := s.modelUsedWithout(node, gone)
	for i := range reqs {
		q := &reqs[i]
		dims := q.dims()
		var minors []int
		for m := range s.inv[node][q.T] {
			minors = append(minors, m)
		}
		sort.Ints(minors)
		fits := func(m int) bool {
			tot := s.inv[node][q.T][m]
			nonzero := false
			for _, v := range tot {
				if v > 0 {
					nonzero = true
				}
			}
			if !nonzero {
				return false // unhealthy / reports nothing: not a device the pod may use
			}
			for d, want := range dims {
				free := tot[d] - used[q.T][m][d]
				if free < 0 {
					free = 0
				}
				if want > free {
					return false
				}
			}
			return true
		}
		var search func(from, need int) bool
		search = func(from, need int) bool {
			if need == 0 {
				return true
			}
			for j := from; j < len(minors); j++ {
				if fits(minors[j]) && search(j+1, need-1) {
					return true
				}
			}
			return false
		}
		if !search(0, q.N) {
			return false
		}
	}
	return true
}

func dvNewScorer(kind string) *resourceAllocationScorer {
	if kind == "none" {
		return nil
	}
	args := &schedulerconfig.DeviceShareArgs{ScoringStrategy: &schedulerconfig.ScoringStrategy{
		Resources: []schedconfig.ResourceSpec{
			{Name: dvRatio, Weight: 1}, {Name: dvCore, Weight: 1}, {Name: dvRdmaR, Weight: 1}, {Name: dvFpgaR, Weight: 1}},
	}}
	if kind == "most" {
		args.ScoringStrategy.Type = schedulerconfig.MostAllocated
		return deviceResourceStrategyTypeMap[schedulerconfig.MostAllocated](args)
	}
	args.ScoringStrategy.Type = schedulerconfig.LeastAllocated
	return deviceResourceStrategyTypeMap[schedulerconfig.LeastAllocated](args)
}

func (dvEngine) Execute(r *sim.Run) {
	s := &dvSim{r: r, delivered: map[string]*corev1.Pod{}, reqsByUID: map[string][]dvReq{}, inFlight: map[string]bool{}, assumed: map[string]bool{},
		known: map[string]bool{}, inv: map[string]dvAlloc{}, bound: map[string]*dvHeld{}, reserved: map[string]*dvHeld{}, overOK: map[dvOverKey]bool{}}
	r.Plan.GetCfg(&s.cfg)
	if s.cfg.Nodes < 1 {
		s.cfg.Nodes = 1
	}
	var ops []dvOp
	r.Plan.GetOps(&ops)
	s.st = newDvStore(&s.cfg)
	snap := &dvSnapshot{infos: map[string]*framework.NodeInfo{}}
	for i := 0; i < s.cfg.Nodes; i++ {
		n := fmt.Sprintf("n%d", i)
		ni := framework.NewNodeInfo()
		ni.SetNode(&corev1.Node{ObjectMeta: metav1.ObjectMeta{Name: n}})
		snap.infos[n] = ni
		snap.names = append(snap.names, n)
		s.nodes = append(s.nodes, n)
		s.inv[n] = dvAlloc{}
	}
	s.h = &dvHandle{snapshot: snap, koordFac: koordinatorinformers.NewSharedInformerFactory(dvNoClient, 0),
		nominator: frameworkext.NewFakeReservationNominator()}
	s.pl = &Plugin{handle: s.h, nodeDeviceCache: newNodeDeviceCache(), gpuSharedResourceTemplatesCache: newGPUSharedResourceTemplatesCache(),
		scorer: dvNewScorer(s.cfg.Scorer)}
	if r.Prop == "C19" {
		s.c19 = true
		s.c07class = map[string]bool{}
	}
	r.Sample("cfg %+v faults=%v rate=%v", s.cfg, r.Plan.Faults, r.Plan.FaultRate)

	const (
		actDev = iota
		actPod
		actTask
		actReserve
		actOp
	)
	opi := 0
	for {
		var acts []int
		if len(s.devQ) > 0 {
			acts = append(acts, actDev)
		}
		if len(s.podQ) > 0 {
			acts = append(acts, actPod)
		}
		if len(s.tasks) > 0 {
			acts = append(acts, actTask)
		}
		if s.open != nil {
			acts = append(acts, actReserve)
		}
		// one scheduling goroutine: the next cycle starts only when the open one has reserved
		opOK := opi < len(ops) && !(s.cfg.Serial && len(acts) > 0) && !(s.open != nil && (ops[opi].K == "schedule" || ops[opi].K == "dryrun"))
		if len(acts) == 0 && !opOK {
			break
		}
		a := actOp
		switch {
		case len(acts) == 0:
		case !opOK:
			a = acts[r.Choose(len(acts))]
		case s.cfg.OpBias > 0 && r.Flip(s.cfg.OpBias):
			r.Probe("op-overtakes-pending-work")
		default:
			acts = append(acts, actOp)
			a = acts[r.Choose(len(acts))]
		}
		switch a {
		case actDev:
			s.deliverDevice()
		case actPod:
			s.deliverPod()
		case actTask:
			i := r.Choose(len(s.tasks))
			s.stepTask(i)
		case actReserve:
			o := s.open
			s.open = nil
			s.reserve(o)
		case actOp:
			op := ops[opi]
			opi++
			s.doOp(&op)
		}
		s.check()
	}
	if s.c19 {
		// one more crash point: the end of the history (every event delivered, nothing in flight)
		s.fork("end of history", true)
	}
	// everything released => ledgers must be empty again is implied by used = sum over live pods (checked above)
}

func (s *dvSim) doOp(op *dvOp) {
	if op.K == "schedule" {
		s.cycle(op)
		return
	}
	if op.K == "dryrun" {
		s.dryRun(op)
		return
	}
	if op.K == "pod_create" || op.K == "pod_foreign" {
		// a name is only reused once nothing of its previous owner is in flight
		if s.inFlight[op.Pod] || (s.open != nil && s.open.op.Pod == op.Pod) {
			s.r.OpSkipped()
			return
		}
	}
	if op.K == "pod_reannot" && s.inFlight[op.Pod] {
		s.r.OpSkipped()
		return
	}
	evs, ok := s.st.apply(op, false)
	if !ok {
		s.r.OpSkipped()
		return
	}
	s.r.OpDone()
	s.r.Event("api %s %s%s", op.K, op.Node, op.Pod)
	s.r.Sample("api %s node=%s pod=%s devs=%v reqs=%+v minors=%v", op.K, op.Node, op.Pod, op.Devs, op.Reqs, op.Minors)
	if op.K == "pod_create" || op.K == "pod_foreign" {
		s.reqsByUID[s.st.pods[op.Pod].UID] = op.Reqs
	}
	s.emit(evs)
}

func (s *dvSim) emit(evs []dvEvent) {
	for _, ev := range evs {
		if ev.typ == "pod" {
			s.podQ = append(s.podQ, ev)
		} else {
			s.devQ = append(s.devQ, ev)
		}
	}
}

// ---- device informer

func (s *dvSim) setInventory(node string, d *schedulingv1alpha1.Device, healthy bool) {
	s.inv[node] = dvInventoryOf(d, healthy)
}

// dvInventoryOf: what a Device object says the node has (unhealthy devices and, with healthy=false, all devices: nothing).
func dvInventoryOf(d *schedulingv1alpha1.Device, healthy bool) dvAlloc {
	inv := dvAlloc{}
	for _, info := range d.Spec.Devices {
		t := string(info.Type)
		if inv[t] == nil {
			inv[t] = map[int]map[string]int64{}
		}
		rs := map[string]int64{}
		if healthy && info.Health {
			for k, q := range info.Resources {
				if v := q.Value(); v != 0 {
					rs[string(k)] = v
				}
			}
		}
		inv[t][int(*info.Minor)] = rs
	}
	return inv
}

func (s *dvSim) deliverDevice() {
	ev := s.devQ[0]
	s.devQ = s.devQ[1:]
	indexer := s.h.koordFac.Scheduling().V1alpha1().Devices().Informer().GetIndexer()
	switch ev.kind {
	case "add":
		d := ev.new.(*schedulingv1alpha1.Device)
		_ = indexer.Add(d)
		s.pl.nodeDeviceCache.onDeviceAdd(d)
		s.known[ev.name] = true
		s.setInventory(ev.name, d, true)
	case "update":
		d := ev.new.(*schedulingv1alpha1.Device)
		_ = indexer.Update(d)
		s.pl.nodeDeviceCache.onDeviceUpdate(ev.old, d)
		s.known[ev.name] = true
		s.setInventory(ev.name, d, true)
	case "delete":
		d := ev.old.(*schedulingv1alpha1.Device)
		_ = indexer.Delete(d)
		if s.cfg.Tomb && s.r.Flip(0.5) {
			s.r.Probe("device-tombstone")
			s.pl.nodeDeviceCache.onDeviceDelete(cache.DeletedFinalStateUnknown{Key: d.Name, Obj: d})
		} else {
			s.pl.nodeDeviceCache.onDeviceDelete(d)
		}
		if s.known[ev.name] {
			// the inventory is unknown until the object is recreated: nothing may be handed out
			s.setInventory(ev.name, d, false)
			s.r.Probe("device-object-deleted")
		}
	}
	s.markOver(ev.name, "inventory-shrank-below-use")
	s.r.Event("deliver device %s %s", ev.kind, ev.name)
	s.r.Sample("deliver device %s %s", ev.kind, ev.name)
}

// ---- pod informer

func dvTerminated(p *corev1.Pod) bool {
	return p.Status.Phase == corev1.PodSucceeded || p.Status.Phase == corev1.PodFailed
}

func dvPodAlloc(r *sim.Run, p *corev1.Pod) dvAlloc {
	a, err := apiext.GetDeviceAllocations(p.Annotations)
	if err != nil {
		if r.Prop == "C19" {
			r.Fail("codec", "undecodable", "pod %s: the device-allocated annotation cannot be decoded: %v (%q)", p.Name, err, p.Annotations[apiext.AnnotationDeviceAllocated])
		}
		r.HarnessFail("harness wrote an undecodable annotation: %v", err)
	}
	return dvConv(a)
}

func (s *dvSim) deliverPod() {
	ev := s.podQ[0]
	s.podQ = s.podQ[1:]
	// relist after a watch gap: consecutive updates of one object are seen as one
	for s.cfg.Coalesce && ev.kind == "update" && len(s.podQ) > 0 && s.podQ[0].kind == "update" && s.podQ[0].name == ev.name &&
		s.podQ[0].new.(*corev1.Pod).UID == ev.new.(*corev1.Pod).UID && s.r.Flip(0.3) {
		ev.new = s.podQ[0].new
		s.podQ = s.podQ[1:]
		s.r.Probe("pod-updates-coalesced")
	}
	switch ev.kind {
	case "add":
		np := ev.new.(*corev1.Pod)
		if old := s.delivered[ev.name]; old != nil && old.UID == np.UID {
			s.r.Probe("duplicate-add")
		}
		s.delivered[ev.name] = np
		s.pl.nodeDeviceCache.onPodAdd(np)
		s.modelPodUpsert(np)
	case "update":
		op, np := ev.old.(*corev1.Pod), ev.new.(*corev1.Pod)
		s.delivered[ev.name] = np
		s.pl.nodeDeviceCache.onPodUpdate(op, np)
		s.modelPodUpsert(np)
	case "delete":
		op := ev.old.(*corev1.Pod)
		if cur := s.delivered[ev.name]; cur != nil && cur.UID == op.UID {
			delete(s.delivered, ev.name)
		}
		if s.cfg.Tomb && s.r.Flip(0.5) {
			s.r.Probe("pod-tombstone")
			s.pl.nodeDeviceCache.onPodDelete(cache.DeletedFinalStateUnknown{Key: dvNS + "/" + op.Name, Obj: op})
		} else {
			s.pl.nodeDeviceCache.onPodDelete(op)
		}
		s.modelPodGone(op)
	}
	s.r.Event("deliver pod %s %s", ev.kind, ev.name)
	s.r.Sample("deliver pod %s %s", ev.kind, ev.name)
}

// modelPodUpsert: what an add/update of a pod means for "the live pods' allocations".
func (s *dvSim) modelPodUpsert(np *corev1.Pod) {
	if np.Spec.NodeName == "" {
		return // not on any node: holds nothing by itself (a reservation made by the scheduler is tracked separately)
	}
	if dvTerminated(np) {
		s.modelPodGone(np)
		return
	}
	a := dvPodAlloc(s.r, np)
	if len(a) == 0 {
		return
	}
	s.known[np.Spec.NodeName] = true
	prev := s.expected(np.Name, np.Spec.NodeName)
	if prev != nil && prev.node == np.Spec.NodeName && dvAllocEq(prev.alloc, a) {
		if s.bound[np.Name] == nil {
			s.r.Probe("bound-event-confirms-reservation")
		} else {
			s.r.Probe("pod-event-same-allocation")
		}
		s.bound[np.Name] = &dvHeld{node: np.Spec.NodeName, uid: string(np.UID), alloc: a}
		return
	}
	// an allocation that did not pass this scheduler's allocator against the current ledger (bound elsewhere,
	// rewritten annotation, re-announced after a lost bind acknowledgement): it may over-commit a device
	s.r.Probe("pod-event-brings-foreign-allocation")
	if prev != nil && s.bound[np.Name] == nil && prev.uid == string(np.UID) {
		// history class of a recorded finding: the first event that shows the pod as assigned carries an allocation
		// different from the one Reserve put into the ledger (relist merged the bind with a later rewrite, or the pod
		// was scheduled a second time after a lost bind acknowledgement)
		s.tag("assigned-event-differs-from-reservation")
	}
	s.bound[np.Name] = &dvHeld{node: np.Spec.NodeName, uid: string(np.UID), alloc: a}
	s.markOver(np.Spec.NodeName, "allocation-made-elsewhere")
}

func (s *dvSim) modelPodGone(p *corev1.Pod) {
	if p.Spec.NodeName == "" {
		return
	}
	if len(dvPodAlloc(s.r, p)) == 0 {
		return
	}
	if !s.known[p.Spec.NodeName] {
		return
	}
	if h := s.expected(p.Name, p.Spec.NodeName); h != nil && h.uid == string(p.UID) && !dvAllocEq(h.alloc, dvPodAlloc(s.r, p)) {
		// history class of a recorded finding: the event that ends the pod (delete / terminated) carries a recorded
		// allocation different from the one the ledger holds for it (relist merged a rewrite with the termination)
		s.tag("release-event-differs-from-ledger")
	}
	delete(s.bound, p.Name)
	// deletePod only touches the ledger of the node the event names: a reservation on another node stays until Unreserve
	if h := s.reserved[p.Name]; h != nil && h.uid == string(p.UID) && h.node == p.Spec.NodeName {
		delete(s.reserved, p.Name)
	}
}

// ---- scheduler

func (s *dvSim) cycle(op *dvOp) {
	r := s.r
	pod := s.delivered[op.Pod]
	// the scheduling queue never hands out a pod that is bound, finished, or assumed and still binding
	if pod == nil || pod.Spec.NodeName != "" || dvTerminated(pod) || s.inFlight[op.Pod] || s.assumed[string(pod.UID)] {
		r.OpSkipped()
		return
	}
	reqs := s.reqsByUID[string(pod.UID)]
	if len(reqs) == 0 {
		r.OpSkipped()
		return
	}
	ctx := context.TODO()
	cs := framework.NewCycleState()
	if _, st := s.pl.PreFilter(ctx, cs, pod, nil); !st.IsSuccess() {
		s.fail("prefilter", "rejects-valid-request", "PreFilter of %s (%+v) = %v", op.Pod, reqs, st.Message())
		r.OpSkipped()
		return
	}
	var feas []string
	for _, n := range s.nodes {
		if !s.known[n] {
			// no Device object was ever seen for this node: the plugin leaves such nodes to the kubelet
			r.Probe("node-without-device-ledger")
			continue
		}
		want := s.feasible(n, reqs)
		st := s.pl.Filter(ctx, cs, pod, s.h.snapshot.infos[n])
		s.oracleEval()
		if st.IsSuccess() && !want {
			s.fail("filter", "accepts-infeasible", "Filter accepts %s on %s but no set of devices satisfies %+v: inventory %s used %s",
				op.Pod, n, reqs, dvAllocStr(s.inv[n]), dvAllocStr(s.modelUsed(n)))
		}
		if !st.IsSuccess() && want {
			if s.scoped(n, reqs) {
				// completeness is not claimed where the topology-scope allocator places GPUs: it may refuse a
				// feasible but badly placed set
				r.Probe("topology-node:feasible-set-refused")
			} else {
				s.fail("filter", "rejects-feasible", "Filter rejects %s on %s (%s) although a feasible set exists for %+v: inventory %s used %s",
					op.Pod, n, st.Message(), reqs, dvAllocStr(s.inv[n]), dvAllocStr(s.modelUsed(n)))
			}
		}
		if s.scoped(n, reqs) {
			r.Probe("topology-node:completeness-not-checked")
		}
		if st.IsSuccess() {
			feas = append(feas, n)
		}
	}
	r.OpDone()
	if len(feas) == 0 {
		r.Probe("unschedulable")
		r.Event("schedule %s unschedulable", op.Pod)
		return
	}
	o := &dvOpen{op: *op, pod: pod, reqs: reqs, cs: cs, node: feas[op.Pick%len(feas)]}
	if s.cfg.Split && r.Flip(0.4) {
		// the informer goroutines keep running while the scheduling cycle moves from Filter to Reserve
		s.open = o
		r.Probe("events-between-filter-and-reserve")
		r.Event("cycle-open %s -> %s", op.Pod, o.node)
		r.Sample("filter passed %s -> %s (Reserve later)", op.Pod, o.node)
		return
	}
	s.reserve(o)
}

// reserve is the second half of a scheduling cycle: Reserve on the node the Filter phase selected.
func (s *dvSim) reserve(o *dvOpen) {
	r, pod, node, reqs, cs := s.r, o.pod, o.node, o.reqs, o.cs
	ctx := context.TODO()
	name := o.op.Pod
	want := s.feasible(node, reqs) // the ledger may have changed since Filter
	usedBefore := s.modelUsed(node)
	st := s.pl.Reserve(ctx, cs, pod, node)
	s.oracleEval()
	if !st.IsSuccess() {
		if want && s.scoped(node, reqs) {
			r.Probe("topology-node:feasible-set-refused")
		} else if want {
			s.fail("reserve", "fails-though-feasible", "Reserve of %s on %s failed (%s) although a feasible set exists for %+v: inventory %s used %s",
				name, node, st.Message(), reqs, dvAllocStr(s.inv[node]), dvAllocStr(usedBefore))
		}
		// the framework calls Unreserve of every reserve plugin when one Reserve fails
		s.pl.Unreserve(ctx, cs, pod, node)
		r.Probe("reserve-fails-after-filter")
		r.Event("reserve-failed %s on %s", name, node)
		return
	}
	if !want {
		s.fail("reserve", "accepts-infeasible", "Reserve of %s on %s succeeded but no set of devices satisfies %+v: inventory %s used %s",
			name, node, reqs, dvAllocStr(s.inv[node]), dvAllocStr(usedBefore))
	}
	state, st := getPreFilterState(cs)
	if !st.IsSuccess() {
		r.HarnessFail("no prefilter state after Reserve")
	}
	alloc := dvConv(state.allocationResult)
	if s.c19 {
		s.codecRoundTrip(name, state.allocationResult)
	}
	s.checkAllocation(name, node, reqs, state.allocationResult, usedBefore)
	s.reserved[name] = &dvHeld{node: node, uid: string(pod.UID), alloc: alloc}
	s.inFlight[name] = true
	s.assumed[string(pod.UID)] = true
	s.tagSharedUndercountedCard(node, alloc)
	s.tasks = append(s.tasks, &dvTask{pod: pod, name: name, uid: string(pod.UID), node: node, cs: cs, rollback: o.op.Rollback, alloc: alloc})
	r.Event("schedule %s -> %s %s", name, node, dvAllocStr(alloc))
	r.Sample("schedule %s -> %s %s", name, node, dvAllocStr(alloc))
	for i := range reqs {
		if reqs[i].N > 1 {
			r.Probe("multi-device-allocation")
		} else if reqs[i].Ratio+reqs[i].Amt+reqs[i].Core > 0 && reqs[i].Ratio < 100 && reqs[i].Amt < 100 {
			r.Probe("fractional-allocation")
		}
	}
	if len(reqs) > 1 {
		r.Probe("multi-type-allocation")
	}
	if s.scoped(node, reqs) {
		r.Probe("topology-node:gpu-allocation")
	}
}

// scoped reports whether GPUs of the request would be placed by the topology-scope allocator on the node: every
// device of the node reports its topology (so a gpuTopologyScope exists) and the pod asks for GPUs. The soundness
// oracles stay on for such allocations; the completeness oracle (brute-force feasibility) is switched off.
func (s *dvSim) scoped(node string, reqs []dvReq) bool {
	if s.cfg.topo(node) == 0 {
		return false
	}
	for i := range reqs {
		if reqs[i].T == dvGPU {
			return true
		}
	}
	return false
}

// checkAllocation: a successful allocation gives the requested number of distinct devices, each a
// permitted device with at least the requested amount free before the call.
func (s *dvSim) checkAllocation(pod, node string, reqs []dvReq, res apiext.DeviceAllocations, usedBefore dvAlloc) {
	s.oracleEval()
	want := map[string]*dvReq{}
	for i := range reqs {
		want[reqs[i].T] = &reqs[i]
	}
	for t := range res {
		if want[string(t)] == nil {
			s.fail("allocation", "unrequested-type", "%s got devices of type %s it did not ask for", pod, t)
		}
	}
	for _, t := range dvTypes {
		q := want[t]
		if q == nil {
			continue
		}
		list := res[schedulingv1alpha1.DeviceType(t)]
		if len(list) != q.N {
			s.fail("allocation", "wrong-device-count", "%s asked for %d %s devices, got %d", pod, q.N, t, len(list))
		}
		seen := map[int32]bool{}
		for _, a := range list {
			if seen[a.Minor] {
				s.fail("allocation", "minor-not-distinct", "%s got %s minor %d twice", pod, t, a.Minor)
			}
			seen[a.Minor] = true
			tot, present := s.inv[node][t][int(a.Minor)]
			nonzero := false
			for _, v := range tot {
				if v > 0 {
					nonzero = true
				}
			}
			if !present || !nonzero {
				s.fail("allocation", "device-not-permitted", "%s got %s minor %d on %s which is absent/unhealthy (inventory %s)", pod, t, a.Minor, node, dvAllocStr(s.inv[node]))
			}
			for d, amount := range q.dims() {
				got := a.Resources[corev1.ResourceName(d)]
				if got.Value() != amount {
					s.fail("allocation", "amount-differs-from-request", "%s asked %s=%d per device, minor %d records %d", pod, d, amount, a.Minor, got.Value())
				}
				free := tot[d] - usedBefore[t][int(a.Minor)][d]
				if free < 0 {
					free = 0
				}
				if amount > free {
					s.fail("allocation", "insufficient-free", "%s got %s minor %d on %s with %s free=%d < requested %d", pod, t, a.Minor, node, d, free, amount)
				}
			}
		}
	}
}

// tagSharedUndercountedCard marks the history class of a recorded finding: a GPU shared between a pod whose request was
// denominated in bytes that are not a whole percentage of the card (its recorded gpu-memory-ratio is truncated and stands
// for less memory than it holds) and at least one pod whose request was denominated in gpu-memory-ratio. The class is
// decided from the requests and the card size - the history -, never from the amounts the allocator recorded: a card shared
// by ratio-denominated requests only is outside it.
func (s *dvSim) tagSharedUndercountedCard(node string, alloc dvAlloc) {
	t := s.st.gpuMem(node)
	for m := range alloc[dvGPU] {
		n, oddBytes, ratio := 0, false, false
		for _, p := range s.podNames() {
			h := s.expected(p, node)
			if h == nil {
				continue
			}
			if _, ok := h.alloc[dvGPU][m]; !ok {
				continue
			}
			n++
			for _, q := range s.reqsByUID[h.uid] {
				if q.T != dvGPU {
					continue
				}
				if q.Mem == 0 {
					ratio = true
				} else if q.Ratio == 0 && ((q.Mem*100)%t != 0 || int64(float64(q.Mem)/float64(t)*100)*t < 100*q.Mem) {
					oddBytes = true
				}
			}
		}
		if n >= 2 && oddBytes && ratio {
			s.tag("card-shared-with-truncated-byte-request")
		}
	}
}

func (s *dvSim) dropTask(i int) {
	s.tasks = append(s.tasks[:i:i], s.tasks[i+1:]...)
}

func (s *dvSim) stepTask(i int) {
	r := s.r
	t := s.tasks[i]
	ctx := context.TODO()
	if t.phase == 1 || t.rollback {
		// the binding cycle failed (or another plugin rejected the pod after Reserve): roll back
		if b := s.bound[t.name]; b != nil && b.uid == t.uid && b.node == t.node {
			// history class of a recorded finding: the informer already confirmed the pod as bound (the bind
			// was applied but its acknowledgement was lost) and the scheduler now rolls the reservation back
			s.tag("unreserve-after-bound-event")
		}
		s.pl.Unreserve(ctx, t.cs, t.pod, t.node)
		if h := s.reserved[t.name]; h != nil && h.uid == t.uid {
			delete(s.reserved, t.name)
		}
		s.inFlight[t.name] = false
		delete(s.assumed, t.uid)
		s.dropTask(i)
		r.Probe("unreserve")
		r.Event("unreserve %s", t.name)
		r.Sample("unreserve %s on %s", t.name, t.node)
		return
	}
	podCopy := t.pod.DeepCopy()
	if st := s.pl.PreBind(ctx, t.cs, podCopy, t.node); !st.IsSuccess() {
		// the Device object is gone from the lister
		r.Probe("prebind-failed")
		r.Event("prebind-failed %s", t.name)
		t.phase = 1
		return
	}
	ann := podCopy.Annotations[apiext.AnnotationDeviceAllocated]
	if s.c19 {
		s.checkPersisted(t, podCopy)
	}
	s.oracleEval()
	if !dvAllocEq(dvPodAlloc(r, podCopy), t.alloc) {
		s.fail("prebind", "annotation-differs-from-reservation", "PreBind of %s records %s, Reserve committed %s", t.name, ann, dvAllocStr(t.alloc))
	}
	cur := s.st.pods[t.name]
	if cur == nil || cur.UID != t.uid || cur.Node != "" {
		r.Probe("bind-after-delete")
		r.Event("bind-conflict %s", t.name)
		t.phase = 1
		return
	}
	f := r.Fault("bind:"+t.name, "patch-err", "bind-err", "bind-lost-ack")
	if f == "patch-err" {
		t.phase = 1
		return
	}
	np := *cur
	np.Ann = ann
	s.st.rv++
	np.RV = s.st.rv
	s.st.pods[t.name] = &np
	s.emit([]dvEvent{{typ: "pod", kind: "update", name: t.name, old: cur.obj(), new: np.obj()}})
	if f == "bind-err" {
		t.phase = 1
		return
	}
	nb := np
	nb.Node = t.node
	nb.Phase = corev1.PodRunning
	s.st.rv++
	nb.RV = s.st.rv
	s.st.pods[t.name] = &nb
	s.emit([]dvEvent{{typ: "pod", kind: "update", name: t.name, old: np.obj(), new: nb.obj()}})
	if s.c19 {
		// crash point: the bind is in the API store; the scheduler dies here and a fresh one starts from the API objects
		s.fork("bind of "+t.name, false)
	}
	if f == "bind-lost-ack" {
		t.phase = 1
		return
	}
	s.inFlight[t.name] = false
	s.dropTask(i)
	r.Probe("bound")
	r.Event("bound %s -> %s", t.name, t.node)
	r.Sample("bound %s -> %s", t.name, t.node)
}

// ---------------------------------------------------------------- preemption / reservation-restore dry runs
//
// A dry run is what the scheduler does when it evaluates, for a pending pod, "would the pod fit on this node if these
// pods were gone" (preemption: PreFilterExtensions().RemovePod / AddPod on a copy of the cycle state produced by
// PreFilter, Filter after every change) or "what of this reservation could the pod use" (PreRestoreReservation /
// RestoreReservation before PreFilter, then Filter). Nothing is allocated and nothing is released, so, from the
// statement of C07 (in use = sum of the live pods' allocations, free = total - in use): the ledgers of every node are,
// by value, exactly what they were before, and every ledger invariant still holds (check() runs right after).
// The verdict of Filter after removing a set of pods is the statement's "fails only if no such set exists" asked about
// the node without those pods (brute force over the model, the removed pods' allocations left out of the sum).

// ledgerByValue flattens the summaries of all node ledgers (an absent amount is a zero amount).
func (s *dvSim) ledgerByValue() map[string]string {
	out := map[string]string{}
	for node, sum := range s.pl.nodeDeviceCache.getAllNodeDeviceSummary() {
		out[node+" present"] = "yes"
		for k, v := range dvFlatSummary(sum) {
			out[node+" "+k] = fmt.Sprint(v)
		}
		for k, v := range dvFlatSet(sum) {
			out[node+" allocate-set "+k] = v
		}
	}
	return out
}

// ledgerUnchanged compares the ledgers with a snapshot taken before the dry run.
func (s *dvSim) ledgerUnchanged(before map[string]string, kind, step string) {
	s.oracleEval()
	after := s.ledgerByValue()
	for _, k := range dvSortedKeys(before, after) {
		if before[k] != after[k] {
			what := "amounts"
			if f := strings.Fields(k); len(f) > 1 {
				what = f[1]
			}
			s.fail("dry-run", "ledger-changed/"+kind+"/"+what, "a %s dry run changed the ledger (nothing was allocated or released): after %s, %q was %q and is now %q",
				kind, step, k, before[k], after[k])
			return
		}
	}
}

// ledgerPod is the pod object the scheduler's snapshot has for a pod that holds devices on a node.
func (s *dvSim) ledgerPod(name, node string) *corev1.Pod {
	h := s.expected(name, node)
	if d := s.delivered[name]; d != nil && h != nil && string(d.UID) == h.uid {
		if d.Spec.NodeName == node {
			return d
		}
		// assumed by the scheduler: the snapshot has the pod with the node filled in
		c := d.DeepCopy()
		c.Spec.NodeName = node
		return c
	}
	uid := ""
	if h != nil {
		uid = h.uid
	}
	return &corev1.Pod{ObjectMeta: metav1.ObjectMeta{Name: name, Namespace: dvNS, UID: types.UID(uid)}, Spec: corev1.PodSpec{NodeName: node}}
}

func (s *dvSim) dryRun(op *dvOp) {
	r := s.r
	eligible := func(name string) bool {
		pod := s.delivered[name]
		return pod != nil && pod.Spec.NodeName == "" && !dvTerminated(pod) && !s.inFlight[name] && !s.assumed[string(pod.UID)] &&
			len(s.reqsByUID[string(pod.UID)]) > 0
	}
	name := op.Pod
	if !eligible(name) {
		// any other pod of the scheduling queue
		var cands []string
		for n := range s.delivered {
			if eligible(n) {
				cands = append(cands, n)
			}
		}
		if len(cands) == 0 {
			r.OpSkipped()
			return
		}
		sort.Strings(cands)
		name = cands[op.Pick%len(cands)]
	}
	pod := s.delivered[name]
	reqs := s.reqsByUID[string(pod.UID)]
	var nodes []string
	for _, n := range s.nodes {
		if s.known[n] {
			nodes = append(nodes, n)
		}
	}
	if len(nodes) == 0 {
		r.OpSkipped()
		return
	}
	node := nodes[op.Pick%len(nodes)]
	if op.Node != "" && s.known[op.Node] {
		node = op.Node
	}
	// the pods concerned: ledger pods of the node (what the scheduler's snapshot has there with devices)
	var rest []string
	for _, p := range s.podNames() {
		if s.expected(p, node) != nil {
			rest = append(rest, p)
		}
	}
	var chosen []string
	take := func(i int) {
		chosen = append(chosen, rest[i])
		rest = append(rest[:i:i], rest[i+1:]...)
	}
	for _, n := range op.Names {
		for i := range rest {
			if rest[i] == n {
				take(i)
				break
			}
		}
	}
	for _, v := range op.Vict {
		if len(rest) == 0 {
			break
		}
		take(v % len(rest))
	}
	if len(chosen) == 0 {
		r.OpSkipped()
		return
	}
	ctx := context.TODO()
	ni := s.h.snapshot.infos[node]
	before := s.ledgerByValue()
	cs := framework.NewCycleState()
	kind := "preemption"
	var rInfo *frameworkext.ReservationInfo
	var owners []string
	if op.Resv {
		// the reservation is restored before PreFilter (frameworkext runs the restore transformers first)
		kind = "reservation-restore"
		resv := &schedulingv1alpha1.Reservation{ObjectMeta: metav1.ObjectMeta{Name: "resv-" + chosen[0], UID: types.UID(chosen[0])},
			Spec:   schedulingv1alpha1.ReservationSpec{Template: &corev1.PodTemplateSpec{}, AllocatePolicy: schedulingv1alpha1.ReservationAllocatePolicy(op.Policy)},
			Status: schedulingv1alpha1.ReservationStatus{NodeName: node}}
		rInfo = frameworkext.NewReservationInfo(resv) // its reserve pod is the ledger entry default/<chosen[0]>
		owners = chosen[1:]
		for _, o := range owners {
			rInfo.AddAssignedPod(s.ledgerPod(o, node))
		}
		if st := s.pl.PreRestoreReservation(ctx, cs, pod); !st.IsSuccess() {
			s.fail("dry-run", "pre-restore-fails", "PreRestoreReservation of %s (%+v) = %v", name, reqs, st.Message())
		}
		matched, unmatched := []*frameworkext.ReservationInfo{rInfo}, []*frameworkext.ReservationInfo(nil)
		if op.Unm {
			matched, unmatched = unmatched, matched
		}
		if _, st := s.pl.RestoreReservation(ctx, cs, pod, matched, unmatched, ni); !st.IsSuccess() {
			s.fail("dry-run", "restore-fails", "RestoreReservation of %s on %s = %v", name, node, st.Message())
		}
		r.Probe("dryrun:restore-reservation")
		if len(owners) >= 2 {
			r.Probe("dryrun:restore-reservation-with-two-or-more-owners")
		}
		s.ledgerUnchanged(before, kind, "RestoreReservation("+strings.Join(chosen, ",")+")")
	}
	if _, st := s.pl.PreFilter(ctx, cs, pod, nil); !st.IsSuccess() {
		s.fail("prefilter", "rejects-valid-request", "PreFilter of %s (%+v) = %v", name, reqs, st.Message())
		r.OpSkipped()
		return
	}
	r.OpDone()
	r.Probe("dryrun:" + kind)
	work := cs.Clone() // every node is evaluated on its own copy of the cycle state
	gone := map[string]bool{}
	var verdicts []string
	state := work
	filter := func(step string) bool {
		st := s.pl.Filter(ctx, state, pod, ni)
		verdicts = append(verdicts, fmt.Sprint(st.IsSuccess()))
		if op.Resv {
			return st.IsSuccess() // how much of a reservation the pod may use is not part of the statement: no verdict oracle
		}
		s.oracleEval()
		want := s.feasibleWithout(node, reqs, gone)
		if st.IsSuccess() && !want {
			s.fail("dry-run", "filter-accepts-infeasible", "after %s, Filter accepts %s on %s but even without %v no set of devices satisfies %+v: inventory %s, in use without them %s",
				step, name, node, dvSortedKeys(gone), reqs, dvAllocStr(s.inv[node]), dvAllocStr(s.modelUsedWithout(node, gone)))
		}
		if !st.IsSuccess() && want {
			if s.scoped(node, reqs) {
				r.Probe("topology-node:feasible-set-refused")
			} else {
				s.fail("dry-run", "filter-rejects-feasible", "after %s, Filter rejects %s on %s (%s) although without %v a feasible set exists for %+v: inventory %s, in use without them %s",
					step, name, node, st.Message(), dvSortedKeys(gone), reqs, dvAllocStr(s.inv[node]), dvAllocStr(s.modelUsedWithout(node, gone)))
			}
		}
		if st.IsSuccess() && len(gone) > 0 && !s.feasible(node, reqs) {
			r.Probe("dryrun:fits-only-without-the-removed-pods")
		}
		return st.IsSuccess()
	}
	victims := chosen
	if op.Resv {
		victims = owners
		// the reservation plugin's cache tells which reservation a pod was allocated from
		s.h.rcache = &dvResvCache{node: node, byPod: map[string]*frameworkext.ReservationInfo{}}
		for _, o := range owners {
			s.h.rcache.byPod[o] = rInfo
		}
		filter("RestoreReservation")
	}
	ext := s.pl.PreFilterExtensions()
	// do two of the pods share a device?
	shared := false
	seen := map[string]string{}
	for _, v := range victims {
		for t, ms := range s.expected(v, node).alloc {
			for m := range ms {
				k := fmt.Sprintf("%s/%d", t, m)
				if o, ok := seen[k]; ok && o != v {
					shared = true
				}
				seen[k] = v
			}
		}
	}
	if len(victims) >= 3 {
		r.Probe("dryrun:three-or-more-pods-removed")
	}
	if shared {
		r.Probe("dryrun:removed-pods-share-a-device")
	}
	for i, v := range victims {
		pi, err := framework.NewPodInfo(s.ledgerPod(v, node))
		if err != nil {
			r.HarnessFail("NewPodInfo(%s): %v", v, err)
		}
		if st := ext.RemovePod(ctx, work, pod, pi, ni); !st.IsSuccess() {
			s.fail("dry-run", "remove-pod-fails", "RemovePod(%s) on %s = %v", v, node, st.Message())
		}
		gone[v] = true
		if i == len(victims)-1 || op.Back%2 == 1 {
			filter("RemovePod(" + strings.Join(victims[:i+1], ",") + ")")
		}
	}
	s.ledgerUnchanged(before, kind, "RemovePod("+strings.Join(victims, ",")+")")
	// reprieve: the pods come back one by one (last removed first); one that makes the pending pod unfit is removed again
	for i := len(victims) - 1; i >= 0 && len(victims)-i <= op.Back; i-- {
		v := victims[i]
		pi, _ := framework.NewPodInfo(s.ledgerPod(v, node))
		if st := ext.AddPod(ctx, work, pod, pi, ni); !st.IsSuccess() {
			s.fail("dry-run", "add-pod-fails", "AddPod(%s) on %s = %v", v, node, st.Message())
		}
		delete(gone, v)
		r.Probe("dryrun:pod-reprieved")
		if !filter("AddPod("+v+")") && op.Back >= 2 {
			if st := ext.RemovePod(ctx, work, pod, pi, ni); !st.IsSuccess() {
				s.fail("dry-run", "remove-pod-fails", "RemovePod(%s) on %s = %v", v, node, st.Message())
			}
			gone[v] = true
			r.Probe("dryrun:reprieve-undone")
			filter("RemovePod(" + v + ") again")
		}
	}
	s.h.rcache = nil
	s.ledgerUnchanged(before, kind, "RemovePod/AddPod of "+strings.Join(victims, ","))
	// the cycle state the copy was taken from knows nothing of the removed pods: Filter there judges the node as it is
	state, gone = cs, map[string]bool{}
	filter("the dry run, on the cycle state it was copied from")
	r.Event("dryrun %s %s on %s pods=%v verdicts=%v", kind, name, node, chosen, verdicts)
	r.Sample("dryrun %s %s on %s pods=%v back=%d verdicts=%v", kind, name, node, chosen, op.Back, verdicts)
}

// ---------------------------------------------------------------- quiescent-point oracle

func dvGet(m deviceResources, minor int, res string) int64 {
	if m == nil {
		return 0
	}
	q, ok := m[minor][corev1.ResourceName(res)]
	if !ok {
		return 0
	}
	return q.Value()
}

func (s *dvSim) check() {
	r := s.r
	s.steps++
	all := s.pl.nodeDeviceCache.getAllNodeDeviceSummary()
	digest := uint64(1469598103934665603)
	for _, node := range s.nodes {
		sum := all[node]
		if (sum != nil) != s.known[node] {
			s.oracleEval()
			s.fail("ledger", "node-presence", "node %s: ledger present=%v, model expects %v", node, sum != nil, s.known[node])
		}
		if sum == nil {
			continue
		}
		s.oracleEval()
		used := s.modelUsed(node)
		// union of (type, minor, resource) keys seen by either side
		keys := map[dvKey]struct{}{}
		for _, detail := range []map[schedulingv1alpha1.DeviceType]deviceResources{sum.DeviceTotalDetail, sum.DeviceFreeDetail, sum.DeviceUsedDetail} {
			for t, ms := range detail {
				for m, rl := range ms {
					for k := range rl {
						keys[dvKey{string(t), m, string(k)}] = struct{}{}
					}
				}
			}
		}
		for _, src := range []dvAlloc{s.inv[node], used} {
			for t, ms := range src {
				for m, rs := range ms {
					for k := range rs {
						keys[dvKey{t, m, k}] = struct{}{}
					}
				}
			}
		}
		ks := make([]dvKey, 0, len(keys))
		for k := range keys {
			ks = append(ks, k)
		}
		sort.Slice(ks, func(i, j int) bool {
			if ks[i].t != ks[j].t {
				return ks[i].t < ks[j].t
			}
			if ks[i].m != ks[j].m {
				return ks[i].m < ks[j].m
			}
			return ks[i].res < ks[j].res
		})
		aggT, aggF, aggU := map[string]int64{}, map[string]int64{}, map[string]int64{}
		for _, k := range ks {
			t, m, res := k.t, k.m, k.res
			dt := schedulingv1alpha1.DeviceType(t)
			T, F, U := dvGet(sum.DeviceTotalDetail[dt], m, res), dvGet(sum.DeviceFreeDetail[dt], m, res), dvGet(sum.DeviceUsedDetail[dt], m, res)
			aggT[res] += T
			aggF[res] += F
			aggU[res] += U
			if mt := s.inv[node][t][m][res]; T != mt {
				s.fail("ledger", "total-differs-from-inventory/"+res, "node %s %s minor %d %s: total=%d, last delivered inventory says %d", node, t, m, res, T, mt)
			}
			if mu := used[t][m][res]; U != mu {
				s.fail("ledger", "used-ne-sum-of-live-allocations/"+res, "node %s %s minor %d %s: used=%d, live pods hold %d (pods: %s)", node, t, m, res, U, mu, s.heldStr(node))
			}
			wantF := T - U
			if wantF < 0 {
				wantF = 0
			}
			if F != wantF {
				s.fail("ledger", "free-ne-total-minus-used/"+res, "node %s %s minor %d %s: free=%d total=%d used=%d", node, t, m, res, F, T, U)
			}
			ok := dvOverKey{node, k}
			if U > T {
				if !s.overOK[ok] {
					s.fail("ledger", "overcommit/"+res, "node %s %s minor %d %s: used=%d exceeds total=%d and no inventory shrink / foreign allocation explains it (pods: %s)", node, t, m, res, U, T, s.heldStr(node))
				}
			} else if s.overOK[ok] {
				delete(s.overOK, ok)
			}
			for _, v := range []uint64{sim.HashString(node), sim.HashString(t), uint64(m), sim.HashString(res), uint64(T), uint64(U), uint64(F)} {
				digest = sim.Mix(digest, v)
			}
		}
		for name, pair := range map[string][2]map[string]int64{"total": {aggT, dvAgg(sum.DeviceTotal)}, "free": {aggF, dvAgg(sum.DeviceFree)}, "used": {aggU, dvAgg(sum.DeviceUsed)}} {
			for res, v := range pair[0] {
				if pair[1][res] != v {
					s.fail("ledger", "summary-aggregate", "node %s: aggregated %s of %s = %d, per-device sum = %d", node, name, res, pair[1][res], v)
				}
			}
		}
		// allocate-set = model
		wantSet := map[string]string{}
		for _, p := range s.podNames() {
			h := s.expected(p, node)
			if h == nil {
				continue
			}
			for t, ms := range h.alloc {
				wantSet[t+"|"+dvNS+"/"+p] = dvAllocStr(dvAlloc{t: ms})
			}
		}
		gotSet := map[string]string{}
		for t, pods := range sum.AllocateSet {
			for p, ms := range pods {
				a := dvAlloc{string(t): map[int]map[string]int64{}}
				for m, rl := range ms {
					rs := map[string]int64{}
					for k, q := range rl {
						if v := q.Value(); v != 0 {
							rs[string(k)] = v
						}
					}
					a[string(t)][m] = rs
				}
				gotSet[string(t)+"|"+p] = dvAllocStr(a)
			}
		}
		var sk []string
		for k := range wantSet {
			sk = append(sk, k)
		}
		for k := range gotSet {
			if _, ok := wantSet[k]; !ok {
				sk = append(sk, k)
			}
		}
		sort.Strings(sk)
		for _, k := range sk {
			if wantSet[k] != gotSet[k] {
				detail := "differs"
				if gotSet[k] == "" {
					detail = "missing"
				} else if wantSet[k] == "" {
					detail = "stale"
				}
				s.fail("allocate-set", detail, "node %s allocate-set[%s] = %q, live pods' allocation = %q", node, k, gotSet[k], wantSet[k])
			}
			digest = sim.Mix(sim.Mix(digest, sim.HashString(k)), sim.HashString(gotSet[k]))
		}
	}
	r.Event("state %x", digest)
}

func dvAgg(m map[corev1.ResourceName]*resource.Quantity) map[string]int64 {
	out := map[string]int64{}
	for k, q := range m {
		out[string(k)] = q.Value()
	}
	return out
}

func (s *dvSim) heldStr(node string) string {
	var parts []string
	for _, p := range s.podNames() {
		if h := s.expected(p, node); h != nil {
			src := "reserved"
			if s.bound[p] != nil {
				src = "bound"
			}
			parts = append(parts, fmt.Sprintf("%s(%s)[%s]", p, src, dvAllocStr(h.alloc)))
		}
	}
	return strings.Join(parts, ", ")
}

// ================================================================ C19: allocation state survives a restart
//
// Under property C19 the same histories run (the real Plugin.PreBind already persists the allocation), and after
// EVERY bind that reaches the API store (acknowledged or not) and once more at the end of the history the run forks:
// a fresh nodeDeviceCache is built and fed ONLY the objects that exist in the API store - Device objects and pods -
// through the real event handlers, as the start-up delivery of a restarted scheduler: every object as an Add in a
// seeded order, duplicate adds, Update(obj,obj) and an update carrying the same allocation. Oracles:
//   (a) codec: Get(Set(x)) == x for every allocation the allocator produced; what PreBind stored reads back to the allocation;
//   (b) the rebuilt node summaries (total / used / free per device and resource, allocate set) equal what the bound pods
//       and Device objects of the store say (model), and the live summaries restricted to the bound pods;
//   (c) rebuilt free == total - persisted use, and probe allocations for everything that is left (real PreFilter /
//       Filter / Reserve on a plugin around the rebuilt cache) never overlap a persisted allocation.
// Start-up order: deviceshare.New only registers the Device and the pod handlers (ForceSyncFromInformer does not
// wait any more) and cmd/koord-scheduler/app/server.go starts the pod informer factory before the koordinator one,
// asynchronously: both "Device before pods" and "pods before Device" are real; the class of every fork is part of the
// violation signature. The node informer handlers of the plugin do nothing on add (not delivered).

func dvAllocationsEqual(a, b apiext.DeviceAllocations) bool {
	if len(a) != len(b) {
		return false
	}
	for t, la := range a {
		lb, ok := b[t]
		if !ok || len(la) != len(lb) {
			return false
		}
		for i := range la {
			if (la[i] == nil) != (lb[i] == nil) {
				return false
			}
			if la[i] != nil && !equality.Semantic.DeepEqual(*la[i], *lb[i]) {
				return false
			}
		}
	}
	return true
}

// codecRoundTrip: Get(Set(x)) == x for an allocation the allocator produced, and for the same value padded with an
// explicit zero amount.
func (s *dvSim) codecRoundTrip(pod string, x apiext.DeviceAllocations) {
	r := s.r
	try := func(x apiext.DeviceAllocations, variant string) {
		r.OracleEval()
		holder := &corev1.Pod{}
		if err := apiext.SetDeviceAllocations(holder, x); err != nil {
			r.Fail("codec", "set-error/"+variant, "SetDeviceAllocations for %s: %v", pod, err)
		}
		back, err := apiext.GetDeviceAllocations(holder.Annotations)
		if err != nil {
			r.Fail("codec", "undecodable/"+variant, "GetDeviceAllocations(%q) for %s: %v", holder.Annotations[apiext.AnnotationDeviceAllocated], pod, err)
		}
		if !dvAllocationsEqual(x, back) {
			r.Fail("codec", "round-trip/"+variant, "pod %s: wrote %s, read back %s (%q)", pod, dvAllocStr(dvConv(x)), dvAllocStr(dvConv(back)), holder.Annotations[apiext.AnnotationDeviceAllocated])
		}
	}
	try(x, "as-allocated")
	n := 0
	for _, l := range x {
		n += len(l)
	}
	if n > 1 {
		r.Probe("c19:codec-multi-device")
	}
	if len(x) > 1 {
		r.Probe("c19:codec-several-device-types")
	}
	try(dvZeroPadded(x), "zero-padded")
}

// dvZeroPadded returns a deep copy of the allocations in which every device carries one more resource with amount 0.
func dvZeroPadded(x apiext.DeviceAllocations) apiext.DeviceAllocations {
	out := apiext.DeviceAllocations{}
	for t, l := range x {
		for _, a := range l {
			c := *a
			c.Resources = a.Resources.DeepCopy()
			if c.Resources == nil {
				c.Resources = corev1.ResourceList{}
			}
			c.Resources["koordinator.sh/verif-zero"] = *resource.NewQuantity(0, resource.DecimalSI)
			out[t] = append(out[t], &c)
		}
	}
	return out
}

// checkPersisted: what PreBind wrote into the pod reads back to exactly the allocation Reserve committed.
func (s *dvSim) checkPersisted(t *dvTask, podCopy *corev1.Pod) {
	r := s.r
	r.OracleEval()
	state, st := getPreFilterState(t.cs)
	if !st.IsSuccess() {
		r.HarnessFail("no prefilter state at PreBind")
	}
	back, err := apiext.GetDeviceAllocations(podCopy.Annotations)
	if err != nil {
		r.Fail("persisted-vs-allocation", "undecodable", "pod %s: the annotation PreBind wrote cannot be decoded: %v (%q)", t.name, err, podCopy.Annotations[apiext.AnnotationDeviceAllocated])
	}
	if !dvAllocEq(dvConv(back), t.alloc) {
		r.Fail("persisted-vs-allocation", "amounts", "pod %s on %s: Reserve committed %s, PreBind persisted %s", t.name, t.node, dvAllocStr(t.alloc), dvAllocStr(dvConv(back)))
	}
	if !dvAllocationsEqual(state.allocationResult, back) {
		r.Fail("persisted-vs-allocation", "record", "pod %s on %s: the allocation result at the end of PreBind and the persisted annotation differ beyond amounts (ids / extensions): %q", t.name, t.node, podCopy.Annotations[apiext.AnnotationDeviceAllocated])
	}
	r.Probe("c19:prebind-persisted")
}

// ---- flattened views of a node summary, by value (an absent amount is a zero amount)

func dvFlatSummary(sum *NodeDeviceSummary) map[string]int64 {
	out := map[string]int64{}
	if sum == nil {
		return out
	}
	for name, detail := range map[string]map[schedulingv1alpha1.DeviceType]deviceResources{"total": sum.DeviceTotalDetail, "free": sum.DeviceFreeDetail, "used": sum.DeviceUsedDetail} {
		for t, ms := range detail {
			for m, rl := range ms {
				for k, q := range rl {
					if v := q.Value(); v != 0 {
						out[fmt.Sprintf("%s %s/%d/%s", name, t, m, k)] = v
					}
				}
			}
		}
	}
	for name, agg := range map[string]map[corev1.ResourceName]*resource.Quantity{"total": sum.DeviceTotal, "free": sum.DeviceFree, "used": sum.DeviceUsed} {
		for k, q := range agg {
			if v := q.Value(); v != 0 {
				out[fmt.Sprintf("%s-aggregate %s", name, k)] = v
			}
		}
	}
	return out
}

func dvFlatSet(sum *NodeDeviceSummary) map[string]string {
	out := map[string]string{}
	if sum == nil {
		return out
	}
	for t, pods := range sum.AllocateSet {
		for p, ms := range pods {
			a := dvAlloc{string(t): map[int]map[string]int64{}}
			for m, rl := range ms {
				rs := map[string]int64{}
				for k, q := range rl {
					if v := q.Value(); v != 0 {
						rs[string(k)] = v
					}
				}
				a[string(t)][m] = rs
			}
			out[string(t)+"|"+p] = dvAllocStr(a)
		}
	}
	return out
}

func dvSortedKeys[V any](ms ...map[string]V) []string {
	seen := map[string]bool{}
	var out []string
	for _, m := range ms {
		for k := range m {
			if !seen[k] {
				seen[k] = true
				out = append(out, k)
			}
		}
	}
	sort.Strings(out)
	return out
}

// dvExpected is what the API store says about one node: inventory of its Device object, the bound live pods with a
// persisted allocation, and the ledger they imply (from the statement: used = sum, free = total - used, not below 0).
type dvExpected struct {
	flat map[string]int64
	set  map[string]string
	inv  dvAlloc
	used dvAlloc
	pods []*dvPod
}

func dvResOfKey(k string) string { return k[strings.LastIndex(k, "/")+1:] }

func (s *dvSim) expectedOf(node string) *dvExpected {
	e := &dvExpected{flat: map[string]int64{}, set: map[string]string{}, inv: dvAlloc{}, used: dvAlloc{}}
	if o := s.st.devs[node]; o != nil {
		e.inv = dvInventoryOf(s.st.devObj(node, o), true)
	}
	var names []string
	for n := range s.st.pods {
		names = append(names, n)
	}
	sort.Strings(names)
	for _, n := range names {
		p := s.st.pods[n]
		if p.Node != node || p.Ann == "" || p.Phase == corev1.PodSucceeded || p.Phase == corev1.PodFailed {
			continue
		}
		a := dvPodAlloc(s.r, p.obj())
		if len(a) == 0 {
			continue
		}
		e.pods = append(e.pods, p)
		for t, ms := range a {
			e.set[t+"|"+dvNS+"/"+p.Name] = dvAllocStr(dvAlloc{t: ms})
			if e.used[t] == nil {
				e.used[t] = map[int]map[string]int64{}
			}
			for m, rs := range ms {
				if e.used[t][m] == nil {
					e.used[t][m] = map[string]int64{}
				}
				for k, v := range rs {
					e.used[t][m][k] += v
				}
			}
		}
	}
	agg := func(name, k string, v int64) {
		if v != 0 {
			e.flat[name+"-aggregate "+k] += v
		}
	}
	keys := map[dvKey]bool{}
	for _, src := range []dvAlloc{e.inv, e.used} {
		for t, ms := range src {
			for m, rs := range ms {
				for k := range rs {
					keys[dvKey{t, m, k}] = true
				}
			}
		}
	}
	for k := range keys {
		T, U := e.inv[k.t][k.m][k.res], e.used[k.t][k.m][k.res]
		F := T - U
		if F < 0 {
			F = 0
		}
		for name, v := range map[string]int64{"total": T, "used": U, "free": F} {
			if v != 0 {
				e.flat[fmt.Sprintf("%s %s/%d/%s", name, k.t, k.m, k.res)] = v
			}
			agg(name, k.res, v)
		}
	}
	return e
}

// compareFlat reports the first difference between two flattened summaries.
func (s *dvSim) compareFlat(oracle, class, what, node string, gotFlat, wantFlat map[string]int64, gotSet, wantSet map[string]string, gotName, wantName string) {
	r := s.r
	r.OracleEval()
	for _, k := range dvSortedKeys(gotFlat, wantFlat) {
		if gotFlat[k] != wantFlat[k] {
			detail := strings.SplitN(k, " ", 2)[0] + "/" + dvResOfKey(k)
			r.Fail(oracle, detail+"/"+class, "%s: node %s: %s: %s has %d, %s has %d", what, node, k, gotName, gotFlat[k], wantName, wantFlat[k])
		}
	}
	for _, k := range dvSortedKeys(gotSet, wantSet) {
		if gotSet[k] != wantSet[k] {
			detail := "differs"
			if gotSet[k] == "" {
				detail = "missing"
			} else if wantSet[k] == "" {
				detail = "stale"
			}
			r.Fail(oracle, "allocate-set-"+detail+"/"+class, "%s: node %s: allocate-set[%s]: %s has %q, %s has %q", what, node, k, gotName, gotSet[k], wantName, wantSet[k])
		}
	}
}

type dvStartEv struct {
	typ  string // device | pod
	kind string // add | dup-add | resync | same-allocation-update | same-allocation-update-zero-padded
	node string
	pod  *dvPod
}

func dvShuffle[T any](r *sim.Run, xs []T) {
	for i := 0; i+1 < len(xs); i++ {
		j := i + r.Choose(len(xs)-i)
		xs[i], xs[j] = xs[j], xs[i]
	}
}

func dvInsertAfter(r *sim.Run, q []dvStartEv, after int, ev dvStartEv) ([]dvStartEv, int) {
	pos := after + 1 + r.Choose(len(q)-after)
	q = append(q, dvStartEv{})
	copy(q[pos+1:], q[pos:])
	q[pos] = ev
	return q, pos
}

// dvTouched is a later version of the pod object that carries the same allocation (some unrelated field changed),
// optionally with the allocation spelled with an explicit zero amount.
func (s *dvSim) dvTouched(p *dvPod, zeroPad bool) *corev1.Pod {
	o := p.obj()
	o.ResourceVersion = o.ResourceVersion + "1"
	o.Labels = map[string]string{"touched": "1"}
	if zeroPad && p.Ann != "" {
		a, err := apiext.GetDeviceAllocations(o.Annotations)
		if err == nil && len(a) > 0 {
			if err := apiext.SetDeviceAllocations(o, dvZeroPadded(a)); err != nil {
				s.r.HarnessFail("SetDeviceAllocations: %v", err)
			}
		}
	}
	return o
}

// fork is one crash point.
func (s *dvSim) fork(trigger string, final bool) {
	r := s.r
	s.forks++
	r.Probe("c19:fork")
	var podNames []string
	for n := range s.st.pods {
		podNames = append(podNames, n)
	}
	sort.Strings(podNames)
	var devNodes []string
	for n := range s.st.devs {
		devNodes = append(devNodes, n)
	}
	sort.Strings(devNodes)
	exp := map[string]*dvExpected{}
	isExpected := map[string]bool{}
	for _, n := range s.nodes {
		exp[n] = s.expectedOf(n)
		for _, p := range exp[n].pods {
			isExpected[p.Name] = true
		}
	}
	for _, pn := range podNames {
		p := s.st.pods[pn]
		switch {
		case isExpected[pn]:
		case p.Node == "" && p.Ann != "":
			r.Probe("c19:store-has-unbound-pod-with-annotation")
		case p.Node == "":
			r.Probe("c19:store-has-unbound-pod")
		case p.Phase == corev1.PodSucceeded || p.Phase == corev1.PodFailed:
			r.Probe("c19:store-has-terminated-pod")
		}
	}

	// ---- the live summaries at the crash point
	live := s.pl.nodeDeviceCache.getAllNodeDeviceSummary()

	// ---- a fresh cache, fed by the start-up delivery
	cache2 := newNodeDeviceCache()
	var devQ, podQ []dvStartEv
	for _, n := range devNodes {
		devQ = append(devQ, dvStartEv{typ: "device", kind: "add", node: n})
	}
	for _, pn := range podNames {
		podQ = append(podQ, dvStartEv{typ: "pod", kind: "add", pod: s.st.pods[pn]})
	}
	dvShuffle(r, devQ)
	dvShuffle(r, podQ)
	for _, n := range devNodes {
		at := -1
		for i, ev := range devQ {
			if ev.node == n && ev.kind == "add" {
				at = i
			}
		}
		if r.Flip(0.15) {
			devQ, at = dvInsertAfter(r, devQ, at, dvStartEv{typ: "device", kind: "dup-add", node: n})
		}
		if r.Flip(0.15) {
			devQ, _ = dvInsertAfter(r, devQ, at, dvStartEv{typ: "device", kind: "resync", node: n})
		}
	}
	for _, pn := range podNames {
		p := s.st.pods[pn]
		at := -1
		for i, ev := range podQ {
			if ev.pod == p && ev.kind == "add" {
				at = i
			}
		}
		if r.Flip(0.2) {
			podQ, at = dvInsertAfter(r, podQ, at, dvStartEv{typ: "pod", kind: "dup-add", pod: p})
		}
		if r.Flip(0.2) {
			podQ, at = dvInsertAfter(r, podQ, at, dvStartEv{typ: "pod", kind: "resync", pod: p})
		}
		if r.Flip(0.2) {
			kind := "same-allocation-update"
			if r.Flip(0.4) {
				kind = "same-allocation-update-zero-padded"
			}
			podQ, _ = dvInsertAfter(r, podQ, at, dvStartEv{typ: "pod", kind: kind, pod: p})
		}
	}
	devSeen := map[string]bool{}
	podBeforeDevice := false
	deliver := func(ev dvStartEv) {
		switch ev.typ {
		case "device":
			d := s.st.devObj(ev.node, s.st.devs[ev.node])
			if ev.kind == "resync" {
				cache2.onDeviceUpdate(d, d)
			} else {
				cache2.onDeviceAdd(d)
			}
			devSeen[ev.node] = true
			r.Event("startup device %s %s", ev.kind, ev.node)
		case "pod":
			p := ev.pod
			if isExpected[p.Name] && s.st.devs[p.Node] != nil && !devSeen[p.Node] {
				if !podBeforeDevice {
					r.Probe("c19:bound-pod-handled-before-its-device-object(fork)")
				}
				podBeforeDevice = true
			}
			switch ev.kind {
			case "add", "dup-add":
				cache2.onPodAdd(p.obj())
			case "resync":
				cache2.onPodUpdate(p.obj(), p.obj())
			case "same-allocation-update":
				cache2.onPodUpdate(p.obj(), s.dvTouched(p, false))
			default:
				cache2.onPodUpdate(p.obj(), s.dvTouched(p, true))
			}
			if ev.kind != "add" {
				r.Probe("c19:startup-pod-" + ev.kind)
			}
			r.Event("startup pod %s %s node=%s phase=%s ann=%q", ev.kind, p.Name, p.Node, p.Phase, p.Ann)
		}
	}
	if s.cfg.Order != "any" {
		for _, ev := range devQ {
			deliver(ev)
		}
		devQ = nil
	}
	for len(devQ)+len(podQ) > 0 {
		var qs []*[]dvStartEv
		for _, q := range []*[]dvStartEv{&devQ, &podQ} {
			if len(*q) > 0 {
				qs = append(qs, q)
			}
		}
		q := qs[r.Choose(len(qs))]
		ev := (*q)[0]
		*q = (*q)[1:]
		deliver(ev)
	}
	class := "devices-first"
	if podBeforeDevice {
		class = "pod-before-device"
	}
	r.Probe("c19:fork-order:" + class)

	rebuilt := cache2.getAllNodeDeviceSummary()
	var rnames []string
	for n := range rebuilt {
		rnames = append(rnames, n)
	}
	sort.Strings(rnames)
	for _, n := range rnames {
		known := false
		for _, m := range s.nodes {
			if m == n {
				known = true
			}
		}
		if !known {
			r.Fail("rebuilt-vs-persisted", "unknown-node/"+class, "the rebuilt cache has a ledger for node %s which does not exist", n)
		}
	}

	liveWrongByC07 := s.c07class["unreserve-after-bound-event"] || s.c07class["assigned-event-differs-from-reservation"] || s.c07class["release-event-differs-from-ledger"]
	digest := uint64(1469598103934665603)
	for _, n := range s.nodes {
		e := exp[n]
		what := fmt.Sprintf("fork %d after %s", s.forks, trigger)
		gotFlat, gotSet := dvFlatSummary(rebuilt[n]), dvFlatSet(rebuilt[n])
		for _, k := range dvSortedKeys(gotFlat) {
			digest = sim.Mix(sim.Mix(digest, sim.HashString(n+k)), uint64(gotFlat[k]))
		}
		for _, k := range dvSortedKeys(gotSet) {
			digest = sim.Mix(digest, sim.HashString(n+k+gotSet[k]))
		}
		// (b1) + (c, first half): rebuilt == what the API objects say; free == total - persisted use
		present := s.st.devs[n] != nil || len(e.pods) > 0
		if (rebuilt[n] != nil) != present {
			r.OracleEval()
			r.Fail("rebuilt-vs-persisted", "node-presence/"+class, "%s: node %s: rebuilt ledger present=%v, the store has Device object=%v and %d bound pods with an allocation", what, n, rebuilt[n] != nil, s.st.devs[n] != nil, len(e.pods))
		}
		s.compareFlat("rebuilt-vs-persisted", class, what+", rebuilt summary vs bound pods and Device object of the API store", n, gotFlat, e.flat, gotSet, e.set, "rebuilt", "store")

		// (b2) rebuilt == live, restricted to the bound pods
		switch {
		case s.liveBad:
			r.Probe("c19:live-comparison-skipped(live ledger failed a C07 oracle)")
		case liveWrongByC07:
			r.Probe("c19:live-comparison-skipped(history class of a recorded C07 finding)")
		default:
			liveSet := dvFlatSet(live[n])
			for _, p := range e.pods {
				// the live entry can be compared when no version of the pod that the live cache has seen or is about to see
				// carries another allocation, and no other pod of that name is in flight
				comparable := true
				pending := false
				check := func(o *corev1.Pod) {
					if string(o.UID) != p.UID {
						comparable = false
						return
					}
					if o.Spec.NodeName != "" && o.Annotations[apiext.AnnotationDeviceAllocated] != "" && o.Annotations[apiext.AnnotationDeviceAllocated] != p.Ann {
						comparable = false
					}
				}
				if d := s.delivered[p.Name]; d != nil {
					check(d)
				}
				for _, ev := range s.podQ {
					if ev.name != p.Name {
						continue
					}
					pending = true
					if ev.kind == "delete" {
						comparable = false
					}
					if o, ok := ev.new.(*corev1.Pod); ok && o != nil {
						check(o)
					}
				}
				// a bound pod can be in a second, doomed scheduling cycle (its bind acknowledgement was lost and the assigned
				// event has not been delivered yet): its live entry is then that cycle's reservation, not the persisted allocation
				inCycle := s.open != nil && s.open.pod != nil && s.open.pod.Name == p.Name
				for _, t := range s.tasks {
					if t.name == p.Name {
						inCycle = true
					}
				}
				if inCycle {
					r.Probe("c19:live-entry-not-comparable(pod has a scheduling cycle in flight)")
					continue
				}
				if !comparable {
					r.Probe("c19:live-entry-not-comparable(live cache lags the store)")
					continue
				}
				r.OracleEval()
				n1 := 0
				for k, v := range e.set {
					if !strings.HasSuffix(k, "|"+dvNS+"/"+p.Name) {
						continue
					}
					n1++
					lv, ok := liveSet[k]
					if !ok {
						if pending {
							r.Probe("c19:live-entry-missing(event pending)")
							continue
						}
						r.Fail("rebuilt-vs-live", "allocate-set-missing-in-live/"+class, "%s: node %s: bound pod %s holds %q but the live cache has no entry %s (nothing pending)", what, n, p.Name, v, k)
					}
					if lv != gotSet[k] {
						r.Fail("rebuilt-vs-live", "allocate-set-entry/"+class, "%s: node %s: allocate-set[%s]: live %q, rebuilt %q", what, n, k, lv, gotSet[k])
					}
				}
				r.Probe("c19:live-entry-compared")
			}
			quiet := len(s.podQ) == 0 && len(s.tasks) == 0 && s.open == nil
			for _, ev := range s.devQ {
				if ev.name == n {
					quiet = false
				}
			}
			if quiet {
				// nothing in flight: the whole summaries must be equal by value
				r.Probe("c19:whole-summary-compared")
				s.compareFlat("rebuilt-vs-live", class, what+", rebuilt summary vs live summary (nothing in flight)", n, gotFlat, dvFlatSummary(live[n]), gotSet, liveSet, "rebuilt", "live")
			} else if len(dvFlatSet(live[n])) > len(e.set) {
				r.Probe("c19:live-holds-allocations-that-vanish-at-restart")
			}
		}
	}
	r.Event("fork %d (%s) order=%s rebuilt %x", s.forks, trigger, class, digest)

	// (c) nothing taken before the restart is offered after it
	s.probeAfterRestart(class, trigger, cache2, exp)
	r.Sample("fork %d after %s: %d pods in the store, %d Device objects, order %s", s.forks, trigger, len(podNames), len(devNodes), class)
}

// probeAfterRestart: on a plugin around the rebuilt cache, pods asking for what is left of every device (largest
// first) go through the real PreFilter / Filter / Reserve; whatever they are given, persisted use + probe use never
// exceeds a device's total in the dimensions the probe asked for.
func (s *dvSim) probeAfterRestart(class, trigger string, cache2 *nodeDeviceCache, exp map[string]*dvExpected) {
	r := s.r
	ctx := context.TODO()
	pl2 := &Plugin{handle: s.h, nodeDeviceCache: cache2, gpuSharedResourceTemplatesCache: newGPUSharedResourceTemplatesCache(), scorer: dvNewScorer(s.cfg.Scorer)}
	for _, node := range s.nodes {
		e := exp[node]
		if cache2.getNodeDevice(node, false) == nil {
			continue
		}
		taken := dvAlloc{}
		for _, t := range dvTypes {
			primary := map[string]string{dvGPU: dvRatio, dvRDMA: dvRdmaR, dvFPGA: dvFpgaR}[t]
			left := func(m int, res string) int64 {
				f := e.inv[t][m][res] - e.used[t][m][res]
				if f < 0 {
					f = 0
				}
				return f
			}
			var minors []int
			for m := range e.inv[t] {
				if left(m, primary) > 0 {
					minors = append(minors, m)
				}
			}
			sort.Slice(minors, func(i, j int) bool {
				if a, b := left(minors[i], primary), left(minors[j], primary); a != b {
					return a > b
				}
				return minors[i] < minors[j]
			})
			// one pod for all untouched whole devices, then one pod per partly used (or smaller) device, largest first
			var reqs []dvReq
			var whole, partial []int
			for _, m := range minors {
				full := left(m, primary) == 100 && e.inv[t][m][primary] == 100
				if t == dvGPU && (left(m, dvCore) != 100 || e.inv[t][m][dvCore] != 100) {
					full = false
				}
				if full {
					whole = append(whole, m)
				} else {
					partial = append(partial, m)
				}
			}
			if len(whole) > 0 {
				q := dvReq{T: t, N: len(whole), Amt: 100}
				if t == dvGPU {
					q = dvReq{T: t, N: len(whole), Core: 100, Ratio: 100, Enc: "core-ratio"}
				}
				reqs = append(reqs, q)
				if len(whole) > 1 {
					r.Probe("c19:probe-asks-for-several-whole-devices")
				}
			}
			for _, m := range partial {
				q := dvReq{T: t, N: 1}
				switch t {
				case dvGPU:
					q.Ratio, q.Core, q.Enc = left(m, dvRatio), left(m, dvCore), "core-ratio"
					if q.Core == 0 {
						q.Enc = "ratio-only"
					}
				default:
					q.Amt = left(m, primary)
				}
				reqs = append(reqs, q)
			}
			for _, q := range reqs {
				s.probeSeq++
				rl := corev1.ResourceList{}
				q.podResources(rl)
				pod := &corev1.Pod{
					ObjectMeta: metav1.ObjectMeta{Name: fmt.Sprintf("restart-probe-%d", s.probeSeq), Namespace: dvNS, UID: types.UID(fmt.Sprintf("restart-probe-uid-%d", s.probeSeq))},
					Spec:       corev1.PodSpec{Containers: []corev1.Container{{Name: "c", Resources: corev1.ResourceRequirements{Requests: rl, Limits: rl.DeepCopy()}}}},
					Status:     corev1.PodStatus{Phase: corev1.PodPending},
				}
				cs := framework.NewCycleState()
				if _, st := pl2.PreFilter(ctx, cs, pod, nil); !st.IsSuccess() {
					r.Probe("c19:probe-prefilter-rejected")
					continue
				}
				// Reserve without its log line (logAllocationContext marshals the whole node summary three times):
				// Plugin.allocate on the rebuilt ledger, then updateCacheUsed, exactly what Reserve does
				if st := pl2.allocate(ctx, cs, pod, s.h.snapshot.infos[node].Node()); !st.IsSuccess() {
					r.Probe("c19:probe-allocate-rejected")
					continue
				}
				state, st := getPreFilterState(cs)
				if !st.IsSuccess() || state.allocationResult == nil {
					r.Probe("c19:probe-without-allocation")
					continue
				}
				nd := cache2.getNodeDevice(node, false)
				nd.lock.Lock()
				nd.updateCacheUsed(state.allocationResult, pod, true)
				nd.lock.Unlock()
				r.OracleEval()
				r.Probe("c19:probe-allocated")
				got := dvConv(state.allocationResult)
				for gt, ms := range got {
					for gm, rs := range ms {
						if taken[gt] == nil {
							taken[gt] = map[int]map[string]int64{}
						}
						if taken[gt][gm] == nil {
							taken[gt][gm] = map[string]int64{}
						}
						for res := range q.dims() {
							v := rs[res]
							taken[gt][gm][res] += v
							if v > 0 && e.used[gt][gm][res]+taken[gt][gm][res] > e.inv[gt][gm][res] {
								r.Fail("offered-after-restart", "probe-overlaps-persisted/"+res+"/"+class,
									"fork %d after %s: node %s: probe pods were given %s minor %d %s=%d in total, bound pods hold %d of the device's %d (probe request %+v; persisted %s)",
									s.forks, trigger, node, gt, gm, res, taken[gt][gm][res], e.used[gt][gm][res], e.inv[gt][gm][res], q, dvAllocStr(e.used))
							}
						}
					}
				}
			}
		}
	}
}
