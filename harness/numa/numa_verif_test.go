//go:build verif

package nodenumaresource

// Engine `numa` (C06): the real resourceManager (Allocate / Update / Release /
// onNodeDelete), NodeAllocation ledger, CPU accumulator (takeCPUs,
// takePreferredCPUs), NUMA split (tryBestToDistributeEvenly, splitQuantity,
// allocateRes), satisfiedRequiredCPUBindPolicy and the pod event handler
// (updatePod / deletePod with the persisted resource-status annotation) run
// against simulated histories. resourceManager takes one lock per node
// allocation, so the history is interleaved at operation level: the driver
// picks the next party (scheduler step, informer delivery, binding result, API
// operation) from the deliver tape. See /verif/DESIGN.md §4 C06.
//
// The engine also serves C19 (r.Prop == "C19"): the same histories with the real
// Plugin.PreBind persisting at bind and a restart fork after every bind - see the
// section "C19" at the end of this file. C06's behaviour is unchanged for its own id.
//
// Binding cycle (both modes): a bind is TWO API writes - the PreBind patch stores the
// resource-status annotation on the still unassigned pod, then the Bind call sets
// spec.nodeName - so every watcher sees update(pending -> pending + allocation) followed by
// update(-> bound, same allocation). A failing binding cycle fails in one of three ways
// (nothing written / patch stored, Bind refused / both applied, acknowledgement lost: the
// scheduler un-reserves a pod that is bound and has to learn it back from its informer).
// Follower (both modes): a second, passive instance of the plugin's caches is fed only the
// informer event stream and never reserves anything; whenever its streams are drained its
// ledger must equal what the bound pods' persisted annotations say - see "follower".
//
// Node-level CPU bind policy (both modes): in a seeded fraction of the runs nodes carry the label
// node.koordinator.sh/cpu-bind-policy (FullPCPUsOnly / SpreadByPCPUs / None) or report the kubelet static policy with
// full-pcpus-only, and pods of any QoS class (LS, BE, none, LSR with a non-prod priority) with whole-number CPU
// requests are scheduled there. Every cycle on such a node runs through the REAL plugin glue: Plugin.PreFilter on
// the pod object, Plugin.Filter, Plugin.allocate (requestCPUBind, getResourceOptions, allocateWithNominated,
// tryAllocateFromNode), Plugin.Reserve for the ledger update, Plugin.Unreserve, and (C19) Plugin.PreBind on the same
// cycle state. The model knows only the API semantics: a pod that holds a CPU set in its resource-status annotation
// holds those CPUs whatever its QoS class, and a node that demands full cores / spreading gets exactly that.

import (
	"context"
	"encoding/json"
	"fmt"
	"sort"
	"strings"
	"testing"

	nrtv1alpha1 "github.com/k8stopologyawareschedwg/noderesourcetopology-api/pkg/apis/topology/v1alpha1"
	corev1 "k8s.io/api/core/v1"
	"k8s.io/apimachinery/pkg/api/resource"
	metav1 "k8s.io/apimachinery/pkg/apis/meta/v1"
	"k8s.io/apimachinery/pkg/types"
	"k8s.io/client-go/tools/cache"
	fwktype "k8s.io/kube-scheduler/framework"
	"k8s.io/kubernetes/pkg/scheduler/framework"

	apiext "github.com/koordinator-sh/koordinator/apis/extension"
	schedulingv1alpha1 "github.com/koordinator-sh/koordinator/apis/scheduling/v1alpha1"
	schedulingconfig "github.com/koordinator-sh/koordinator/pkg/scheduler/apis/config"
	"github.com/koordinator-sh/koordinator/pkg/scheduler/frameworkext"
	"github.com/koordinator-sh/koordinator/pkg/scheduler/frameworkext/topologymanager"
	"github.com/koordinator-sh/koordinator/pkg/util/bitmask"
	"github.com/koordinator-sh/koordinator/pkg/util/cpuset"
	reservationutil "github.com/koordinator-sh/koordinator/pkg/util/reservation"
	sim "github.com/koordinator-sh/koordinator/pkg/verifsim"
)

func TestVerifSim(t *testing.T) { sim.Main(t, &nvEngine{}) }

type nvEngine struct{}

func (nvEngine) Name() string { return "numa" }

const (
	nvCPU       = "cpu"    // milli-CPUs
	nvMem       = "memory" // bytes
	nvExt       = "example.com/dev"
	nvUntracked = "example.com/untracked" // never reported per NUMA node
	// history class of the recorded finding (known_findings.jsonl): a NUMA-level
	// allocation whose hint names several nodes and is not exactly {0,1}
	nvTagHint = "numa-hint-multi-node-not-01"
	// history class of the recorded finding: a FullPCPUs CPU-set request on a machine with three or more
	// sockets and SMT (the cross-socket top-up loop of takeCPUs keeps taking cores from the next socket)
	nvTagTopUp = "three-or-more-sockets-fullpcpus-topup"
	// nvTopo.NPol value: no label, the NodeResourceTopology reports the kubelet CPU manager policy static with full-pcpus-only=true
	nvKubeletFullPCPUs = "kubelet-static-full-pcpus-only"
)

// ---------------------------------------------------------------- plan types

type nvCfg struct {
	Strategy string `json:"strategy"` // scheduler-wide default NUMA allocate strategy
	// C19 only: how the start-up deliveries of a restarted scheduler are merged ("topology-first": every
	// NodeResourceTopology is handled before the first pod; "any": the three informers run independently)
	Order string `json:"order,omitempty"`
}

type nvTopo struct {
	S     int     `json:"s"`             // sockets
	NPS   int     `json:"nps"`           // NUMA nodes per socket
	C     int     `json:"c"`             // cores per NUMA node
	T     int     `json:"t"`             // threads per core
	Lay   int     `json:"lay,omitempty"` // 0: sibling threads have adjacent ids; 1: sibling = id + number of cores
	Res   []int   `json:"res,omitempty"` // reserved CPUs
	Max   int     `json:"max"`           // MaxRefCount
	Mem   []int64 `json:"mem"`           // memory capacity per NUMA node
	Ext   []int64 `json:"ext,omitempty"` // capacity of example.com/dev per NUMA node; -1: not reported on that node
	Strat string  `json:"strat,omitempty"`
	// node-level CPU bind policy: "" (no label), the value of the label node.koordinator.sh/cpu-bind-policy
	// (FullPCPUsOnly, SpreadByPCPUs, None), or nvKubeletFullPCPUs (the NodeResourceTopology reports the kubelet's static
	// CPU manager policy with full-pcpus-only=true). Cycles on a node with a non-empty value run through the real plugin glue.
	NPol string `json:"npol,omitempty"`
}

type nvAmt struct {
	N int              `json:"n"`
	R map[string]int64 `json:"r"`
}

// nvPre is a pod that already runs on the node when the scheduler first sees it
// (allocated by an earlier scheduler incarnation; arrives as informer Add with
// the persisted annotation).
type nvPre struct {
	P    string  `json:"p"`
	CPUs []int   `json:"cpus,omitempty"`
	NUMA []nvAmt `json:"numa,omitempty"`
	Excl string  `json:"excl,omitempty"`
	QoS  string  `json:"qos,omitempty"` // see nvOp.QoS
}

type nvOp struct {
	K    string  `json:"k"`
	N    string  `json:"n,omitempty"`
	P    string  `json:"p,omitempty"`
	Topo *nvTopo `json:"topo,omitempty"`
	Pre  []nvPre `json:"pre,omitempty"`
	// pod_create
	Bind  bool             `json:"bind,omitempty"` // pod asks for a CPU set (LSE/LSR)
	QoS   string           `json:"qos,omitempty"`  // "": LSR when bind, no QoS label otherwise; LSE: like LSR; LS, BE, none (no label), LSR-mid (LSR with priority class koord-mid): classes that never ask for a CPU set themselves
	Pol   string           `json:"pol,omitempty"`  // CPU bind policy
	Reqd  bool             `json:"required,omitempty"`
	Excl  string           `json:"excl,omitempty"`
	Req   map[string]int64 `json:"req,omitempty"`
	Resv  bool             `json:"resv,omitempty"`  // the pod is the reserve pod of a reservation (it reserves a CPU set for its owner pods)
	RPol  string           `json:"rpol,omitempty"`  // reservation allocate policy ("", Aligned, Restricted)
	Owner string           `json:"owner,omitempty"` // name of the reservation this pod is an owner of (it allocates out of that reservation where it is available)
	// sched
	Hint      []int `json:"hint,omitempty"` // NUMA affinity chosen by the topology manager for this cycle
	Abandon   bool  `json:"abandon,omitempty"`
	BindFails bool  `json:"bind_fails,omitempty"`
	// how the binding cycle fails when BindFails is set: "" - the first API write (the PreBind patch) is refused, nothing
	// is written; "patched" - the PreBind patch is stored, the Bind call is refused (the pod stays pending and carries the
	// annotation); "lost-ack" - both writes are applied by the API server but the Bind call returns an error to the
	// scheduler (timeout / lost acknowledgement): Unreserve runs although the pod is bound
	BindFault string `json:"bind_fault,omitempty"`
	// preemption dry run (PostFilter): the cycle evaluates the node with these pods removed; never committed
	Victims []string `json:"victims,omitempty"`
	// take (direct call of takePreferredCPUs on the node's current state, as the reservation-restore path does)
	Pref []int `json:"pref,omitempty"`
	CPUs int   `json:"cpus,omitempty"`
}

// ---------------------------------------------------------------- independent topology model

type nvCPUPos struct{ socket, node, core int }

func (t *nvTopo) numCPUs() int  { return t.S * t.NPS * t.C * t.T }
func (t *nvTopo) numNodes() int { return t.S * t.NPS }
func (t *nvTopo) valid() bool {
	return t != nil && t.S >= 1 && t.NPS >= 1 && t.C >= 1 && t.T >= 1 && t.Max >= 1 && len(t.Mem) == t.numNodes() &&
		(t.Ext == nil || len(t.Ext) == t.numNodes()) && t.numNodes() <= 16
}

// pos is the harness's own map from CPU id to (socket, NUMA node, physical core); it is
// derived from the plan's shape parameters only, never from the CPUTopology under test.
func (t *nvTopo) pos(cpu int) (nvCPUPos, bool) {
	if cpu < 0 || cpu >= t.numCPUs() {
		return nvCPUPos{}, false
	}
	var gcore int
	if t.Lay == 1 {
		gcore = cpu % (t.S * t.NPS * t.C)
	} else {
		gcore = cpu / t.T
	}
	node := gcore / t.C
	return nvCPUPos{socket: node / t.NPS, node: node, core: gcore}, true
}

func (t *nvTopo) reserved(cpu int) bool {
	for _, c := range t.Res {
		if c == cpu {
			return true
		}
	}
	return false
}

// capacity reported per NUMA node (what NewTopologyOptions derives from the
// NodeResourceTopology: reserved CPUs are already subtracted from the cpu amount)
func (t *nvTopo) capacity(n int) map[string]int64 {
	out := map[string]int64{}
	cpus := 0
	for c := 0; c < t.numCPUs(); c++ {
		if p, _ := t.pos(c); p.node == n && !t.reserved(c) {
			cpus++
		}
	}
	out[nvCPU] = int64(cpus) * 1000
	out[nvMem] = t.Mem[n]
	if t.Ext != nil && t.Ext[n] >= 0 {
		out[nvExt] = t.Ext[n]
	}
	return out
}

func (t *nvTopo) tracked(dim string) bool {
	switch dim {
	case nvCPU, nvMem:
		return true
	case nvExt:
		for _, v := range t.Ext {
			if v >= 0 {
				return true
			}
		}
	}
	return false
}

// nodePolicy is the CPU bind policy that every CPU set handed out on the node must satisfy strictly, read off the API
// documentation of the node label (FullPCPUsOnly: "requires that the scheduler must allocate full physical cores.
// Equivalent to kubelet CPU manager policy option full-pcpus-only=true"; SpreadByPCPUs: "requires that the scheduler
// must evenly allocate logical cpus across physical cores"); "" = the node demands nothing.
func (t *nvTopo) nodePolicy() string {
	switch t.NPol {
	case string(apiext.NodeCPUBindPolicyFullPCPUsOnly), nvKubeletFullPCPUs:
		return string(apiext.CPUBindPolicyFullPCPUs)
	case string(apiext.NodeCPUBindPolicySpreadByPCPUs):
		return string(apiext.CPUBindPolicySpreadByPCPUs)
	}
	return ""
}

// viaPlugin: the cycles on this node run through the real plugin glue (PreFilter / Filter / allocate / Reserve / PreBind).
func (t *nvTopo) viaPlugin() bool { return t.NPol != "" }

// nvCPUSetClass: the QoS classes whose pods ask for a CPU set themselves (LSE / LSR with prod priority).
func nvCPUSetClass(qos string) bool { return qos == "" || qos == string(apiext.QoSLSE) }

// nvEff is what the API semantics say about one pod on one node: whether it is bound to a CPU set there and which
// bind policies that CPU set has to satisfy strictly.
type nvEff struct {
	bind   bool     // bound to a CPU set on this node
	byNode bool     // ... only because the node demands it (the pod is not LSE/LSR, or names no bind policy)
	verify []string // bind policies the CPU set must satisfy strictly: the node's, and the pod's own required one
	fullP  bool     // the accumulator runs with FullPCPUs (history class of the recorded top-up finding)
	whole  bool     // the CPU request is a whole number of CPUs
}

func nvEffective(sp nvSpec, t *nvTopo) nvEff {
	cpu := sp.Req[nvCPU]
	e := nvEff{bind: sp.Bind, whole: cpu > 0 && cpu%1000 == 0}
	np := t.nodePolicy()
	if np != "" {
		e.verify = append(e.verify, np)
		if !e.bind && e.whole {
			e.bind, e.byNode = true, true
		}
	}
	if sp.Bind && sp.Reqd && sp.Pol != "" && sp.Pol != np {
		e.verify = append(e.verify, sp.Pol)
	}
	switch {
	case !e.bind:
	case np != "":
		e.fullP = np == string(apiext.CPUBindPolicyFullPCPUs)
	case t.viaPlugin() && (sp.Pol == "" || sp.Pol == string(apiext.CPUBindPolicyDefault)):
		e.fullP = true // the real PreFilter fills in the scheduler's default bind policy (FullPCPUs, see Execute)
	default:
		e.fullP = sp.Pol == string(apiext.CPUBindPolicyFullPCPUs)
	}
	return e
}

func nvQuantity(dim string, v int64) resource.Quantity {
	switch dim {
	case nvCPU:
		return *resource.NewMilliQuantity(v, resource.DecimalSI)
	case nvMem:
		return *resource.NewQuantity(v, resource.BinarySI)
	}
	return *resource.NewQuantity(v, resource.DecimalSI)
}

func nvToRL(m map[string]int64) corev1.ResourceList {
	out := corev1.ResourceList{}
	for k, v := range m {
		out[corev1.ResourceName(k)] = nvQuantity(k, v)
	}
	return out
}

func nvVal(dim string, q resource.Quantity) int64 {
	if dim == nvCPU {
		return q.MilliValue()
	}
	return q.Value()
}

func (t *nvTopo) options() TopologyOptions {
	b := NewCPUTopologyBuilder()
	for c := 0; c < t.numCPUs(); c++ {
		p, _ := t.pos(c)
		// the kernel reports core ids per socket
		b.AddCPUInfo(p.socket, p.node, p.core-p.socket*t.NPS*t.C, c)
	}
	opts := TopologyOptions{
		CPUTopology:  b.Result(),
		ReservedCPUs: cpuset.NewCPUSet(t.Res...),
		MaxRefCount:  t.Max,
	}
	if t.NPol == nvKubeletFullPCPUs {
		opts.Policy = nvKubeletPolicy()
	}
	for n := 0; n < t.numNodes(); n++ {
		opts.NUMANodeResources = append(opts.NUMANodeResources, NUMANodeResource{Node: n, Resources: nvToRL(t.capacity(n))})
	}
	return opts
}

// nvKubeletPolicy is what the koordlet reports for a kubelet that runs the static CPU manager policy with full-pcpus-only.
func nvKubeletPolicy() *apiext.KubeletCPUManagerPolicy {
	return &apiext.KubeletCPUManagerPolicy{Policy: apiext.KubeletCPUManagerPolicyStatic,
		Options: map[string]string{apiext.KubeletCPUManagerPolicyFullPCPUsOnlyOption: "true"}}
}

// ---------------------------------------------------------------- model

type nvAlloc struct {
	cpus []int                    // sorted
	numa map[int]map[string]int64 // NUMA node -> dimension -> amount
	excl string                   // CPU exclusive policy recorded with the allocation (C19; not part of String())
	resv bool                     // held by the reserve pod of a reservation (not part of String())
	via  string                   // uid of the reservation this owner pod allocated out of (not part of String())
}

func (a *nvAlloc) empty() bool { return a == nil || (len(a.cpus) == 0 && len(a.numa) == 0) }

func (a *nvAlloc) String() string {
	if a == nil {
		return "-"
	}
	var sb strings.Builder
	fmt.Fprintf(&sb, "cpus=%v", a.cpus)
	ns := make([]int, 0, len(a.numa))
	for n := range a.numa {
		ns = append(ns, n)
	}
	sort.Ints(ns)
	for _, n := range ns {
		fmt.Fprintf(&sb, " n%d{%s}", n, nvFmt(a.numa[n]))
	}
	return sb.String()
}

func nvFmt(m map[string]int64) string {
	ks := make([]string, 0, len(m))
	for k := range m {
		ks = append(ks, k)
	}
	sort.Strings(ks)
	var sb strings.Builder
	for i, k := range ks {
		if i > 0 {
			sb.WriteByte(' ')
		}
		fmt.Fprintf(&sb, "%s=%d", k, m[k])
	}
	return sb.String()
}

func nvFromReal(pa *PodAllocation) *nvAlloc {
	a := &nvAlloc{cpus: pa.CPUSet.ToSlice(), numa: map[int]map[string]int64{}, excl: string(pa.CPUExclusivePolicy)}
	for _, nr := range pa.NUMANodeResources {
		m := a.numa[nr.Node]
		if m == nil {
			m = map[string]int64{}
			a.numa[nr.Node] = m
		}
		for k, q := range nr.Resources {
			m[string(k)] += nvVal(string(k), q)
		}
	}
	return a
}

type nvSpec struct {
	Bind  bool
	QoS   string
	Pol   string
	Reqd  bool
	Excl  string
	Req   map[string]int64
	Resv  bool
	RPol  string
	Owner string
}

// nvPodVer is one version of a pod object in the API server.
type nvPodVer struct {
	name, uid, node string
	term            bool
	alloc           *nvAlloc // persisted resource-status annotation
	spec            nvSpec
	rv              int
	obj             *corev1.Pod
	ann             map[string]string // C19: the annotations the real Plugin.PreBind wrote at bind time (nil: built from alloc)
}

type nvNode struct {
	name string
	topo *nvTopo
	obj  *corev1.Node
	nrt  *nrtv1alpha1.NodeResourceTopology // C19: the NodeResourceTopology object of the node (built on first use)
	// plugin-glue cycles that run with a NUMA hint: the node as it looks while it carries the NUMA topology policy
	// BestEffort (the policy under which Filter leaves the hint to Reserve; the hint itself is an input of the cycle)
	objHinted *corev1.Node
}

type nvEvent struct {
	typ, kind string // typ: pod | nrt | node ; kind: add | update | delete
	old, new  *nvPodVer
	node      string
	nodeObj   *corev1.Node
}

type nvCycle struct {
	pod       *nvPodVer
	node      string
	real      *PodAllocation
	alloc     *nvAlloc
	bindFails bool
	bindFault string
	// a cycle in which the plugin allocates nothing for the pod (C19; generated only for a pod whose API object still
	// carries the resource-status annotation of an earlier binding attempt - PreBind patch stored, Bind refused)
	none    bool
	stepsIn int
	cs      *framework.CycleState // cycle that runs through the real plugin glue: its cycle state (PreFilter .. PreBind)
}

type nvSim struct {
	r   *sim.Run
	cfg nvCfg
	rm  *resourceManager
	tm  TopologyOptionsManager
	h   *podEventHandler
	// API server
	nodes map[string]*nvNode
	pods  map[string]*nvPodVer
	rv    int
	// informer transport
	streams map[string][]nvEvent
	// scheduler's view
	known      map[string]*nvNode // topology delivered (NodeResourceTopology stream)
	schedNodes map[string]bool    // node delivered (node stream)
	queue      map[string]*nvPodVer
	assumed    map[string]bool // pods this scheduler assumed (cycle committed or committing) and did not un-reserve: never scheduled again
	cycle      *nvCycle
	binds      []*nvCycle
	// event-level model of the ledger: node -> pod uid -> allocation
	holders map[string]map[string]*nvAlloc
	steps   int
	// reservations the scheduler knows to be available: reservation (reserve pod) name -> bound version
	resvAvail map[string]*nvPodVer
	deferred  func() // a failed check of opSched that is reported after the checks on the allocation itself
	// C19 (restart) mode
	c19     bool
	liveBad bool    // the live ledger failed one of C06's oracles in this run: not used as a reference any more
	pl      *Plugin // real Plugin for PreBind (persistence at bind)
	forks   int
	mixed   map[string]map[int]bool // node -> CPUs on which an allocation was added on top of a holder with another exclusive policy
	// pods (uid) of the history class nvTagExclOther, and the first place where the live record of such a pod was seen
	// to differ from what was persisted / rebuilt (reported at the last crash point, after every other oracle)
	exclOther map[string]bool
	exclDiff  string
	// the follower: a second, passive plugin instance (stand-by replica) that is fed nothing but the informer event
	// stream and never reserves anything itself - see the section "follower" below
	fw *nvFollower
	// pods whose bind was applied by the API server while the scheduler was told it failed (pod name -> node): the
	// window stays open until the pod informer reports the pod (bound, or deleted)
	lostAck map[string]string
}

// fail reports a violation of one of C06's oracles. Under C19 these oracles are not claimed (they are C06's and
// `check C06` reports them): the run goes on, but the live ledger is no longer trusted as the reference of the
// restart comparison (the rebuilt state is still compared with what the API objects say).
func (s *nvSim) fail(oracle, sigDetail, format string, args ...any) {
	if s.c19 {
		if !s.liveBad {
			s.r.Probe("c19:live-ledger-failed-a-C06-oracle(run)")
		}
		s.liveBad = true
		s.r.Probe("c19:C06-oracle-failed(not claimed here):" + oracle)
		return
	}
	s.r.Fail(oracle, sigDetail, format, args...)
}

// oracleEval counts evaluations of the oracles of the property under check only.
func (s *nvSim) oracleEval() {
	if !s.c19 {
		s.r.OracleEval()
	}
}

// tagC06 marks a history class of a finding recorded for C06; it is not a history class of C19.
func (s *nvSim) tagC06(name string) {
	if s.c19 {
		s.r.Probe("c19:C06-history-class:" + name)
		return
	}
	s.r.Tag(name)
}

func (s *nvSim) bump() int { s.rv++; return s.rv }

func (s *nvSim) mkPod(v *nvPodVer) *nvPodVer {
	pod := &corev1.Pod{
		ObjectMeta: metav1.ObjectMeta{Name: v.name, Namespace: "default", UID: types.UID(v.uid), ResourceVersion: fmt.Sprint(v.rv),
			Labels: map[string]string{}, Annotations: map[string]string{}},
		Spec: corev1.PodSpec{NodeName: v.node, Containers: []corev1.Container{{Name: "c",
			Resources: corev1.ResourceRequirements{Requests: nvToRL(v.spec.Req), Limits: nvToRL(v.spec.Req)}}}},
		Status: corev1.PodStatus{Phase: corev1.PodPending},
	}
	switch v.spec.QoS {
	case "":
		if v.spec.Bind {
			pod.Labels[apiext.LabelPodQoS] = string(apiext.QoSLSR)
		}
	case "none":
	case "LSR-mid":
		// LSR, but not of the prod priority class: never asks for a CPU set itself
		pod.Labels[apiext.LabelPodQoS] = string(apiext.QoSLSR)
		pod.Labels[apiext.LabelPodPriorityClass] = string(apiext.PriorityMid)
	default: // LSE, LS, BE
		pod.Labels[apiext.LabelPodQoS] = v.spec.QoS
	}
	spec := &apiext.ResourceSpec{PreferredCPUExclusivePolicy: apiext.CPUExclusivePolicy(v.spec.Excl)}
	if v.spec.Reqd {
		spec.RequiredCPUBindPolicy = apiext.CPUBindPolicy(v.spec.Pol)
	} else {
		spec.PreferredCPUBindPolicy = apiext.CPUBindPolicy(v.spec.Pol)
	}
	if v.spec.Bind || v.spec.Excl != "" || v.spec.Pol != "" {
		if err := apiext.SetResourceSpec(pod, spec); err != nil {
			s.r.HarnessFail("SetResourceSpec: %v", err)
		}
	}
	if v.spec.Resv {
		pod.Annotations[reservationutil.AnnotationReservePod] = "true"
		pod.Annotations[reservationutil.AnnotationReservationName] = v.name
	}
	if v.node != "" {
		pod.Status.Phase = corev1.PodRunning
	}
	if v.term {
		pod.Status.Phase = corev1.PodSucceeded
	}
	if v.ann != nil {
		// C19: exactly what the real Plugin.PreBind wrote into the pod at bind time
		for k, val := range v.ann {
			pod.Annotations[k] = val
		}
	} else if !v.alloc.empty() {
		// what Plugin.preBindObject persists (resource-status annotation), through the real codec
		st := &apiext.ResourceStatus{CPUSet: cpuset.NewCPUSet(v.alloc.cpus...).String()}
		ns := make([]int, 0, len(v.alloc.numa))
		for n := range v.alloc.numa {
			ns = append(ns, n)
		}
		sort.Ints(ns)
		for _, n := range ns {
			st.NUMANodeResources = append(st.NUMANodeResources, apiext.NUMANodeResource{Node: int32(n), Resources: nvToRL(v.alloc.numa[n])})
		}
		if err := apiext.SetResourceStatus(pod, st); err != nil {
			s.r.HarnessFail("SetResourceStatus: %v", err)
		}
	}
	v.obj = pod
	return v
}

// emit: one API write is seen by every watcher - the scheduler's informers and, independently, the follower's.
func (s *nvSim) emit(ev nvEvent) {
	s.streams[ev.typ] = append(s.streams[ev.typ], ev)
	s.fw.streams[ev.typ] = append(s.fw.streams[ev.typ], ev)
}

func (s *nvSim) pendingFor(node string) bool {
	for _, ev := range s.streams["pod"] {
		if (ev.new != nil && ev.new.node == node) || (ev.old != nil && ev.old.node == node) {
			return true
		}
	}
	for _, typ := range []string{"nrt", "node"} {
		for _, ev := range s.streams[typ] {
			if ev.node == node {
				return true
			}
		}
	}
	if s.fw.pendingFor(node) {
		return true
	}
	if s.cycle != nil && s.cycle.node == node {
		return true
	}
	for _, b := range s.binds {
		if b.node == node {
			return true
		}
	}
	return false
}

// ---- model ledger helpers

func (s *nvSim) hold(node, uid string, a *nvAlloc) {
	if s.holders[node] == nil {
		s.holders[node] = map[string]*nvAlloc{}
	}
	if old := s.holders[node][uid]; s.c19 && a != nil && (old == nil || nvExclNorm(old.excl) != nvExclNorm(a.excl)) {
		// the ledger keeps ONE exclusive policy per CPU (the last writer's): remember the CPUs on which pods with
		// different exclusive policies were stacked (only possible with MaxRefCount > 1)
		for ouid, o := range s.holders[node] {
			if ouid == uid || nvExclNorm(o.excl) == nvExclNorm(a.excl) {
				continue
			}
			for _, c := range a.cpus {
				for _, oc := range o.cpus {
					if c == oc {
						if s.mixed[node] == nil {
							s.mixed[node] = map[int]bool{}
						}
						s.mixed[node][c] = true
						// history class of a finding recorded for C19 (the per-CPU exclusive policy is the last writer's)
						s.r.Tag(nvTagStacked)
					}
				}
			}
		}
	}
	s.holders[node][uid] = a
}

func (s *nvSim) unhold(node, uid string) { delete(s.holders[node], uid) }

// nvSharing counts, per CPU, the holders that matter for the sharing limit: every pod holding it, plus every
// reservation holding it unless one of that reservation's own owner pods took the CPU out of it (the reservation's
// hold is then the owner's, not a second user).
func nvSharing(hs map[string]*nvAlloc) map[int]int {
	out := map[int]int{}
	covered := map[string]map[int]bool{} // reservation uid -> CPUs taken by its owners
	for _, a := range hs {
		if a == nil || a.resv {
			continue
		}
		for _, c := range a.cpus {
			out[c]++
			if a.via != "" {
				if covered[a.via] == nil {
					covered[a.via] = map[int]bool{}
				}
				covered[a.via][c] = true
			}
		}
	}
	for uid, a := range hs {
		if a == nil || !a.resv {
			continue
		}
		for _, c := range a.cpus {
			if !covered[uid][c] {
				out[c]++
			}
		}
	}
	return out
}

func (s *nvSim) cpuCounts(node string) map[int]int {
	cnt := map[int]int{}
	for _, a := range s.holders[node] {
		for _, c := range a.cpus {
			cnt[c]++
		}
	}
	return cnt
}

func (s *nvSim) numaUsed(node string) map[int]map[string]int64 {
	used := map[int]map[string]int64{}
	for _, a := range s.holders[node] {
		for n, m := range a.numa {
			if used[n] == nil {
				used[n] = map[string]int64{}
			}
			for d, v := range m {
				used[n][d] += v
			}
		}
	}
	return used
}

// numaFree is what each NUMA node has free according to the statement: reported
// capacity minus what the live holders were handed from that node.
func (s *nvSim) numaFree(node string, t *nvTopo) map[int]map[string]int64 {
	used := s.numaUsed(node)
	free := map[int]map[string]int64{}
	for n := 0; n < t.numNodes(); n++ {
		free[n] = map[string]int64{}
		for d, c := range t.capacity(n) {
			f := c - used[n][d]
			if f < 0 {
				f = 0
			}
			free[n][d] = f
		}
	}
	return free
}

// ---------------------------------------------------------------- API operations

// applyPre validates one pre-existing pod against the node's topology and what
// the earlier pre-existing pods hold (an earlier scheduler incarnation obeyed the
// same rules), and returns its allocation.
func nvPreAlloc(t *nvTopo, pre *nvPre, cnt map[int]int, used map[int]map[string]int64) *nvAlloc {
	a := &nvAlloc{numa: map[int]map[string]int64{}}
	seen := map[int]bool{}
	for _, c := range pre.CPUs {
		if _, ok := t.pos(c); !ok || t.reserved(c) || seen[c] || cnt[c] >= t.Max {
			return nil
		}
		seen[c] = true
		a.cpus = append(a.cpus, c)
	}
	sort.Ints(a.cpus)
	for _, am := range pre.NUMA {
		if am.N < 0 || am.N >= t.numNodes() || a.numa[am.N] != nil {
			return nil
		}
		capn := t.capacity(am.N)
		m := map[string]int64{}
		for d, v := range am.R {
			c, ok := capn[d]
			if !ok || v <= 0 || used[am.N][d]+v > c {
				return nil
			}
			m[d] = v
		}
		if len(m) == 0 {
			return nil
		}
		a.numa[am.N] = m
	}
	if a.empty() {
		return nil
	}
	for _, c := range a.cpus {
		cnt[c]++
	}
	for n, m := range a.numa {
		if used[n] == nil {
			used[n] = map[string]int64{}
		}
		for d, v := range m {
			used[n][d] += v
		}
	}
	return a
}

func (s *nvSim) nodeObj(name string, t *nvTopo) *corev1.Node {
	n := &corev1.Node{ObjectMeta: metav1.ObjectMeta{Name: name, Labels: map[string]string{}}}
	if t.Strat != "" {
		n.Labels[apiext.LabelNodeNUMAAllocateStrategy] = t.Strat
	}
	if t.NPol != "" && t.NPol != nvKubeletFullPCPUs {
		n.Labels[apiext.LabelNodeCPUBindPolicy] = t.NPol
	}
	return n
}

// hintedObj: see nvNode.objHinted.
func (nd *nvNode) hintedObj() *corev1.Node {
	if nd.objHinted == nil {
		nd.objHinted = nd.obj.DeepCopy()
		nd.objHinted.Labels[apiext.LabelNUMATopologyPolicy] = string(apiext.NUMATopologyPolicyBestEffort)
	}
	return nd.objHinted
}

func (s *nvSim) opNodeAdd(op *nvOp) bool {
	if op.N == "" || s.nodes[op.N] != nil || !op.Topo.valid() || s.pendingFor(op.N) {
		return false
	}
	t := op.Topo
	nd := &nvNode{name: op.N, topo: t, obj: s.nodeObj(op.N, t)}
	s.nodes[op.N] = nd
	// A node the scheduler (re)starts with: NodeResourceTopology is synced first
	// (ForceSyncFromInformer in NewWithOptions), then the pods that already run there arrive as Add.
	opts := t.options()
	s.tm.UpdateTopologyOptions(op.N, func(o *TopologyOptions) { *o = opts })
	fopts := t.options() // the follower's own copy: it synced the same NodeResourceTopology
	s.fw.tm.UpdateTopologyOptions(op.N, func(o *TopologyOptions) { *o = fopts })
	s.known[op.N] = nd
	s.schedNodes[op.N] = true
	if _, had := s.holders[op.N]; had {
		s.r.Probe("node-name-reused")
	}
	s.r.Event("node_add %s %dx%dx%dx%d lay=%d res=%v max=%d", op.N, t.S, t.NPS, t.C, t.T, t.Lay, t.Res, t.Max)
	cnt, used := map[int]int{}, map[int]map[string]int64{}
	for i := range op.Pre {
		pre := &op.Pre[i]
		if pre.P == "" || s.pods[pre.P] != nil {
			continue
		}
		a := nvPreAlloc(t, pre, cnt, used)
		if a == nil {
			continue
		}
		a.excl = pre.Excl
		req := map[string]int64{nvCPU: int64(len(a.cpus)) * 1000}
		v := s.mkPod(&nvPodVer{name: pre.P, uid: "u-" + pre.P, node: op.N, alloc: a, rv: s.bump(),
			spec: nvSpec{Bind: len(a.cpus) > 0 && nvCPUSetClass(pre.QoS), QoS: pre.QoS, Pol: string(apiext.CPUBindPolicyFullPCPUs), Excl: pre.Excl, Req: req}})
		s.pods[pre.P] = v
		s.h.OnAdd(v.obj, true)
		s.fw.h.OnAdd(v.obj, true)
		s.fw.tell(op.N, v.uid, a)
		s.hold(op.N, v.uid, a)
		s.r.Event("pre %s on %s qos=%s %s", pre.P, op.N, pre.QoS, a)
		s.r.Probe("pre-existing-pod-add")
		if len(a.cpus) > 0 && !nvCPUSetClass(pre.QoS) {
			// a pod of another QoS class that holds a CPU set (an earlier scheduler bound it under a node-level CPU bind policy)
			s.r.Probe("nodepol:pre-existing-pod-of-another-qos-holds-cpuset")
		}
	}
	return true
}

func (s *nvSim) opNodeDel(op *nvOp) bool {
	nd := s.nodes[op.N]
	if nd == nil {
		return false
	}
	delete(s.nodes, op.N)
	// the pods bound to the node go with it (pod GC); their delete events travel on the pod stream
	names := make([]string, 0)
	for n, p := range s.pods {
		if p.node == op.N {
			names = append(names, n)
		}
	}
	sort.Strings(names)
	for _, n := range names {
		s.emit(nvEvent{typ: "pod", kind: "delete", old: s.pods[n]})
		delete(s.pods, n)
	}
	if len(names) > 0 {
		s.r.Probe("node-delete-with-pods")
	}
	s.emit(nvEvent{typ: "nrt", kind: "delete", node: op.N})
	s.emit(nvEvent{typ: "node", kind: "delete", node: op.N, nodeObj: nd.obj})
	s.r.Event("node_del %s pods=%d", op.N, len(names))
	return true
}

func (s *nvSim) opPodCreate(op *nvOp) bool {
	if op.P == "" || s.pods[op.P] != nil || op.Req[nvCPU] <= 0 {
		return false
	}
	bind := op.Bind && nvCPUSetClass(op.QoS) // only LSE / LSR (prod) pods ask for a CPU set themselves
	if bind && op.Req[nvCPU]%1000 != 0 {
		return false // PreFilter rejects fractional CPU requests of CPU-set pods
	}
	for _, v := range op.Req {
		if v <= 0 {
			return false
		}
	}
	if _, dup := s.queue[op.P]; dup {
		return false
	}
	for _, q := range [][]nvEvent{s.streams["pod"], s.fw.streams["pod"]} {
		for _, ev := range q {
			if (ev.new != nil && ev.new.name == op.P) || (ev.old != nil && ev.old.name == op.P) {
				return false // names are not reused while events of an earlier pod are in flight
			}
		}
	}
	v := s.mkPod(&nvPodVer{name: op.P, uid: "u-" + op.P, rv: s.bump(), spec: nvSpec{Bind: bind, QoS: op.QoS, Pol: op.Pol, Reqd: op.Reqd && bind, Excl: op.Excl, Req: op.Req,
		Resv: op.Resv && bind && op.Owner == "", RPol: op.RPol, Owner: op.Owner}})
	s.pods[op.P] = v
	s.emit(nvEvent{typ: "pod", kind: "add", new: v})
	s.r.Event("pod_create %s bind=%v qos=%s pol=%s req=%v excl=%s {%s}", op.P, bind, op.QoS, op.Pol, op.Reqd, op.Excl, nvFmt(op.Req))
	return true
}

func (s *nvSim) opPodDelete(op *nvOp) bool {
	cur := s.pods[op.P]
	if cur == nil {
		return false
	}
	delete(s.pods, op.P)
	s.emit(nvEvent{typ: "pod", kind: "delete", old: cur})
	s.r.Event("pod_delete %s", op.P)
	return true
}

func (s *nvSim) opPodTerm(op *nvOp) bool {
	cur := s.pods[op.P]
	if cur == nil || cur.node == "" || cur.term {
		return false
	}
	nv := *cur
	nv.term, nv.rv = true, s.bump()
	s.pods[op.P] = s.mkPod(&nv)
	s.emit(nvEvent{typ: "pod", kind: "update", old: cur, new: s.pods[op.P]})
	s.r.Event("pod_term %s", op.P)
	return true
}

func (s *nvSim) opResync(op *nvOp) bool {
	cur := s.pods[op.P]
	if cur == nil {
		return false
	}
	s.emit(nvEvent{typ: "pod", kind: "update", old: cur, new: cur})
	s.r.Event("resync %s", op.P)
	return true
}

// ---------------------------------------------------------------- informer delivery

func (s *nvSim) deliver(typ string) {
	q := s.streams[typ]
	ev := q[0]
	q = q[1:]
	if typ == "pod" && ev.kind == "update" && len(q) > 0 && q[0].kind == "update" && q[0].new.name == ev.new.name && s.r.Flip(0.15) {
		// coalescing: consecutive updates of one object merged by the informer
		ev = nvEvent{typ: "pod", kind: "update", old: ev.old, new: q[0].new}
		q = q[1:]
		s.r.Probe("coalesced-update")
	}
	s.streams[typ] = q
	if s.cycle != nil {
		s.cycle.stepsIn++
	}
	switch typ {
	case "nrt":
		s.tm.Delete(ev.node)
		delete(s.known, ev.node)
		s.r.Event("deliver nrt delete %s", ev.node)
	case "node":
		if s.r.Flip(0.2) {
			s.rm.onNodeDelete(cache.DeletedFinalStateUnknown{Key: ev.node, Obj: ev.nodeObj})
		} else {
			s.rm.onNodeDelete(ev.nodeObj)
		}
		delete(s.schedNodes, ev.node)
		delete(s.holders, ev.node)
		delete(s.mixed, ev.node)
		s.r.Event("deliver node delete %s", ev.node)
	case "pod":
		s.deliverPod(ev)
	}
}

func (s *nvSim) deliverPod(ev nvEvent) {
	switch ev.kind {
	case "add", "update":
		v := ev.new
		if ev.kind == "add" {
			s.h.OnAdd(v.obj, false)
		} else {
			s.h.OnUpdate(ev.old.obj, v.obj)
		}
		s.r.Event("deliver pod %s %s node=%s term=%v %s", ev.kind, v.name, v.node, v.term, v.alloc)
		switch {
		case v.node == "":
			if !s.assumed[v.name] {
				s.queue[v.name] = v
			}
		case v.term:
			delete(s.queue, v.name)
			delete(s.resvAvail, v.name)
			delete(s.lostAck, v.name)
			if _, held := s.holders[v.node][v.uid]; held {
				s.r.Probe("terminated-release")
			}
			s.unhold(v.node, v.uid)
		default:
			delete(s.queue, v.name)
			if _, open := s.lostAck[v.name]; open {
				// the informer reports the pod whose bind acknowledgement was lost: the scheduler learns that it is bound
				delete(s.lostAck, v.name)
				s.r.Probe("lost-bind-ack:informer-reports-the-pod-bound")
			}
			if v.spec.Resv && !v.alloc.empty() {
				s.resvAvail[v.name] = v // the reservation became Available on its node
			}
			if v.alloc.empty() {
				return
			}
			if s.known[v.node] == nil {
				// resourceManager.Update has nothing to account against without the node's CPU topology;
				// only reachable for nodes that are being deleted (the topology object goes with the node)
				s.r.Probe("update-without-topology")
				return
			}
			if _, held := s.holders[v.node][v.uid]; held {
				s.r.Probe("same-allocation-again")
			} else {
				s.r.Probe("informer-readds-allocation")
			}
			s.hold(v.node, v.uid, v.alloc)
		}
	case "delete":
		v := ev.old
		if s.r.Flip(0.2) {
			s.h.OnDelete(cache.DeletedFinalStateUnknown{Key: "default/" + v.name, Obj: v.obj})
			s.r.Probe("tombstone-delete")
		} else {
			s.h.OnDelete(v.obj)
		}
		s.r.Event("deliver pod delete %s node=%s", v.name, v.node)
		delete(s.queue, v.name)
		delete(s.lostAck, v.name)
		delete(s.resvAvail, v.name)
		if v.node != "" {
			s.unhold(v.node, v.uid)
		}
	}
}

// ---------------------------------------------------------------- scheduling cycle

func nvSortedCopy(xs []int) []int {
	out := append([]int(nil), xs...)
	sort.Ints(out)
	return out
}

func nvIsPrefix(sorted []int) bool {
	for i, v := range sorted {
		if v != i {
			return false
		}
	}
	return true
}

// opSched runs the allocation half of one scheduling cycle (Plugin.allocate ->
// resourceManager.Allocate) and checks the result against the model.
func (s *nvSim) opSched(op *nvOp) bool {
	if s.queue[op.P] == nil && !s.assumed[op.P] && s.cycle == nil {
		// the scheduler can only pick a pod it has seen: let the pod informer catch up to the pod's add
		pending := func() bool {
			for _, ev := range s.streams["pod"] {
				if ev.kind == "add" && ev.new.name == op.P {
					return true
				}
			}
			return false
		}
		for pending() {
			s.deliver("pod")
			s.checkLedger("pod informer catch-up")
		}
	}
	if s.cycle == nil {
		// Assumption about the (stubbed) framework: after a Bind call that returned an error although the API server
		// applied it, the pod sits in back-off; the next cycle for that pod, or for another pod on that node, starts
		// after the pod informer reported the pod's state. (Between Unreserve and that report no ledger can know that
		// the pod is bound; what the plugin does with the report is what is checked.)
		blocked := func() bool {
			if _, open := s.lostAck[op.P]; open {
				return true
			}
			for _, pn := range nvSortedStrKeys(s.lostAck) {
				if s.lostAck[pn] == op.N {
					return true
				}
			}
			return false
		}
		for blocked() && len(s.streams["pod"]) > 0 {
			s.r.Probe("lost-bind-ack:cycle-waits-for-the-informer-report")
			s.deliver("pod")
			s.checkLedger("pod informer catch-up after a lost bind acknowledgement")
		}
	}
	pod := s.queue[op.P]
	nd := s.known[op.N]
	if pod == nil || nd == nil || !s.schedNodes[op.N] || s.cycle != nil {
		return false
	}
	if s.assumed[op.P] {
		return false
	}
	t := nd.topo
	var hint []int
	if op.Hint != nil {
		hint = nvSortedCopy(op.Hint)
		for i, n := range hint {
			if n < 0 || n >= t.numNodes() || (i > 0 && hint[i-1] == n) {
				return false
			}
		}
		if len(hint) == 0 {
			return false
		}
	}
	plug := t.viaPlugin()           // the cycle runs through the real plugin glue
	eff := nvEffective(pod.spec, t) // what the API semantics say about this pod on this node
	if plug {
		if pod.spec.Resv || len(op.Victims) > 0 {
			return false // reservations and preemption dry runs are not modelled on nodes with a node-level CPU bind policy
		}
		s.r.Probe("nodepol:cycle-through-plugin-glue")
	} else if !pod.spec.Bind && hint == nil {
		// Plugin.allocate returns before Allocate: nothing to do for this pod on this node
		if s.carriesFailedAttempt(op.P) {
			return s.cycleWithoutAllocation(pod, op, nil)
		}
		return false
	}
	if pod.spec.Resv && hint != nil {
		return false // reservations of this workload reserve CPU sets only (no NUMA-level amounts)
	}
	need := int(pod.spec.Req[nvCPU] / 1000)
	reqs := nvToRL(pod.spec.Req)
	opts := &ResourceOptions{
		numCPUsNeeded:         need,
		requestCPUBind:        pod.spec.Bind,
		requests:              reqs,
		originalRequests:      reqs,
		requiredCPUBindPolicy: pod.spec.Bind && pod.spec.Reqd,
		cpuBindPolicy:         schedulingconfig.CPUBindPolicy(pod.spec.Pol),
		cpuExclusivePolicy:    schedulingconfig.CPUExclusivePolicy(pod.spec.Excl),
		preferredCPUs:         cpuset.NewCPUSet(),
		preemptibleCPUs:       cpuset.NewCPUSet(),
		topologyOptions:       s.tm.GetTopologyOptions(op.N),
	}
	if hint != nil {
		mask, err := bitmask.NewBitMask(hint...)
		if err != nil {
			s.r.HarnessFail("bitmask: %v", err)
		}
		opts.hint = topologymanager.NUMATopologyHint{NUMANodeAffinity: mask}
		if len(hint) >= 3 || (len(hint) == 2 && !nvIsPrefix(hint)) {
			// history class of the recorded finding: a multi-node hint other than {0,1} (the comparator of the
			// ascending-by-free sort looks up slice positions instead of the node ids stored at those positions)
			// (fixed in /repo: "sort hinted NUMA nodes by the free amount of the node id"; no longer a tagged class)
			s.r.Probe("hint-multi-node-not-01")
		}
		if !nvIsPrefix(hint) {
			s.r.Probe("hint-not-prefix")
		}
	}

	if eff.fullP && t.S >= 3 && t.T >= 2 {
		s.tagC06(nvTagTopUp)
	}

	// ---- the state before the call, from the model only
	cnt := s.cpuCounts(op.N)    // holders per CPU
	free := s.numaFree(op.N, t) // per-NUMA free amounts (nobody removed)
	// What this pod may additionally use: ONE reference of every CPU of the reservation it allocates out of
	// (the reservation's own hold) and ONE reference of every CPU of the pods a preemption dry run removes.
	var resv *nvPodVer
	var resvCPUs, victimCPUs map[int]bool
	var victims []string // uids
	if !s.c19 && !plug {
		if r := s.resvAvail[pod.spec.Owner]; pod.spec.Owner != "" && r != nil && r.node == op.N && !s.holders[op.N][r.uid].empty() {
			resv = r
			resvCPUs = map[int]bool{}
			for _, c := range s.holders[op.N][r.uid].cpus {
				resvCPUs[c] = true
			}
		}
		seen := map[string]bool{}
		for _, vn := range op.Victims {
			uid := "u-" + vn
			a := s.holders[op.N][uid]
			if a.empty() || a.resv || vn == op.P || seen[uid] {
				continue
			}
			seen[uid] = true
			victims = append(victims, uid)
			if victimCPUs == nil {
				victimCPUs = map[int]bool{}
			}
			for _, c := range a.cpus {
				victimCPUs[c] = true
			}
		}
	}
	// cntFor: holders of the CPU as far as THIS pod is concerned
	cntFor := func(c int) int {
		k := cnt[c]
		if resvCPUs[c] && k > 0 {
			k--
		}
		if victimCPUs[c] && k > 0 {
			k--
		}
		return k
	}
	freeMax := free // per-NUMA free amounts with the victims removed
	if len(victims) > 0 {
		freeMax = map[int]map[string]int64{}
		for n, m := range free {
			freeMax[n] = map[string]int64{}
			for d, v := range m {
				freeMax[n][d] = v
			}
		}
		for _, uid := range victims {
			for n, m := range s.holders[op.N][uid].numa {
				capn := t.capacity(n)
				for d, v := range m {
					if _, ok := capn[d]; ok {
						freeMax[n][d] = min(capn[d], freeMax[n][d]+v)
					}
				}
			}
		}
	}
	freeCPUs := 0
	for c := 0; c < t.numCPUs(); c++ {
		if !t.reserved(c) && cntFor(c) < t.Max {
			freeCPUs++
		}
	}

	var pa *PodAllocation
	var status *fwktype.Status
	var cs *framework.CycleState
	switch {
	case plug:
		pa, status, cs = s.allocateViaPluginGlue(pod, nd, hint)
	case s.c19:
		pa, status = s.rm.Allocate(nd.obj, pod.obj, opts)
	default:
		pa, status = s.allocateAsPlugin(op, pod, nd, opts, resv, victims, cntFor)
	}
	ok := status.IsSuccess()
	s.oracleEval()
	if ok && pa == nil {
		if plug && !eff.bind && hint == nil {
			// neither a CPU set nor NUMA-level amounts are due to this pod on this node: the plugin has nothing to record
			s.r.Event("allocate %s on %s: nothing to allocate", op.P, op.N)
			s.r.Probe("nodepol:nothing-to-allocate")
			if s.carriesFailedAttempt(op.P) {
				return s.cycleWithoutAllocation(pod, op, cs)
			}
			return true
		}
		s.fail("allocate", "nil-result", "Allocate(%s on %s) succeeded without an allocation", op.P, op.N)
		return true
	}
	if ok {
		s.r.Event("allocate %s on %s hint=%v ok -> %s", op.P, op.N, hint, nvFromReal(pa))
	} else {
		s.r.Event("allocate %s on %s hint=%v failed", op.P, op.N, hint)
	}
	desc := fmt.Sprintf("pod %s{bind=%v pol=%s required=%v excl=%s %s} node %s{%dx%dx%dx%d lay=%d res=%v max=%d} hint=%v",
		op.P, pod.spec.Bind, pod.spec.Pol, pod.spec.Reqd, pod.spec.Excl, nvFmt(pod.spec.Req), op.N, t.S, t.NPS, t.C, t.T, t.Lay, t.Res, t.Max, hint)
	if plug || pod.spec.QoS != "" {
		desc += fmt.Sprintf(" (pod QoS %q, node CPU bind policy %q: bound to a CPU set here=%v, must strictly satisfy %v; through the plugin glue=%v)", pod.spec.QoS, t.NPol, eff.bind, eff.verify, plug)
	}
	if pod.spec.Resv {
		desc += " (reserve pod)"
	}
	if resv != nil {
		desc += fmt.Sprintf(" out of reservation %s{%s policy=%s}", resv.name, s.holders[op.N][resv.uid], resv.spec.RPol)
	}
	if len(victims) > 0 {
		desc += fmt.Sprintf(" preemption dry run with victims %v holding CPUs %v", victims, nvSortedInts(victimCPUs))
	}

	if !ok {
		if eff.bind {
			s.r.Probe("alloc-cpu-fail")
			if hint == nil && len(eff.verify) == 0 && freeCPUs >= need {
				s.r.Probe("cpu-fail-with-enough-free(not-claimed)")
			}
		}
		if hint != nil {
			s.r.Probe("alloc-numa-fail")
		}
		if hint != nil && !eff.bind && t.nodePolicy() != "" && !eff.whole {
			// precondition of the node's policy, not of the NUMA split: a node that demands full cores / spreading admits
			// only whole-number CPU requests; the completeness claim is suspended for exactly these pods (counted)
			s.r.Probe("nodepol:numa-complete-suspended(fractional cpu request on a node with a CPU bind policy)")
		} else if hint != nil && !eff.bind && resv == nil {
			// (a pod that allocates out of a reservation is confined by the reservation's policy: no claim)
			// COMPLETENESS (freely divisible resources, no CPU binding): the hinted nodes together have enough free of
			// everything that is asked for => must succeed. A dimension the node does not report per NUMA node has
			// nothing free, so a request naming one carries no claim.
			enough := true
			var detail []string
			for _, d := range nvSortedKeys(pod.spec.Req) {
				var sum int64
				for _, n := range hint {
					sum += free[n][d]
				}
				detail = append(detail, fmt.Sprintf("%s: want %d, hinted nodes have %d", d, pod.spec.Req[d], sum))
				if sum < pod.spec.Req[d] {
					enough = false
				}
			}
			if enough {
				var fr []string
				for _, n := range hint {
					fr = append(fr, fmt.Sprintf("n%d{%s}", n, nvFmt(free[n])))
				}
				// the class of the failing call is part of the signature: only multi-node hints other than {0,1}
				// belong to the recorded finding
				class := "hint-single-or-01"
				if len(hint) >= 3 || (len(hint) == 2 && !nvIsPrefix(hint)) {
					class = "hint-multi-node-not-01"
				}
				s.fail("numa-complete", class, "Allocate failed (%s) although the hinted NUMA nodes together have enough free: %s; free %s; %s",
					status.Message(), strings.Join(detail, "; "), strings.Join(fr, " "), desc)
			}
			s.r.Probe("numa-fail-justified")
		}
		if f := s.deferred; f != nil {
			s.deferred = nil
			f()
		}
		return true
	}

	got := nvFromReal(pa)
	s.r.Sample("allocate %s -> %s", desc, got)
	if s.c19 {
		s.codecRoundTrip(pa, desc)
	}

	// ---- CPU set oracles
	if !eff.bind {
		if len(got.cpus) != 0 {
			s.fail("cpu-unrequested", "", "pod without CPU binding got CPUs %v; %s", got.cpus, desc)
		}
	} else {
		s.r.Probe("alloc-cpu-ok")
		if eff.byNode {
			s.r.Probe("nodepol:cpuset-because-the-node-demands-it:qos=" + pod.spec.QoS)
		}
		if len(got.cpus) != need {
			s.fail("cpu-count", nvPolSig(pod.spec, t), "asked for %d CPUs, got %d (%v); %s", need, len(got.cpus), got.cpus, desc)
		}
		shared := false
		for _, c := range got.cpus {
			if _, ok := t.pos(c); !ok {
				s.fail("cpu-not-free", "unknown-cpu", "CPU %d is not in the topology; %s", c, desc)
			}
			if t.reserved(c) {
				s.fail("cpu-not-free", "reserved", "CPU %d is reserved; got %v; %s", c, got.cpus, desc)
			}
			if cntFor(c) >= t.Max {
				class := "refcount"
				switch {
				case resv != nil && len(victims) > 0:
					class = "refcount-reservation+preemption"
				case resv != nil:
					class = "refcount-reservation"
				case len(victims) > 0:
					class = "refcount-preemption"
				}
				s.fail("cpu-not-free", class, "CPU %d was not free for this pod: held by %d (%d after giving back the reservation's / the victims' reference), MaxRefCount %d; got %v; %s",
					c, cnt[c], cntFor(c), t.Max, got.cpus, desc)
			}
			if cntFor(c) > 0 {
				shared = true
			}
			if resvCPUs[c] {
				s.r.Probe("owner-got-cpu-of-its-reservation")
			}
			if victimCPUs[c] {
				s.r.Probe("preemptor-got-cpu-of-a-victim")
			}
		}
		if shared {
			s.r.Probe("cpu-shared-within-maxrefcount")
		}
		if need == freeCPUs {
			s.r.Probe("alloc-takes-all-free-cpus")
		}
		for _, pol := range eff.verify {
			perCore := map[int]int{}
			for _, c := range got.cpus {
				p, _ := t.pos(c)
				perCore[p.core]++
			}
			// whose demand it is goes into the signature: the pod's required policy, or the node's
			by := ""
			if pol == t.nodePolicy() {
				by = "-node-policy"
				s.r.Probe("nodepol:node-policy-verified:" + pol)
			}
			switch pol {
			case string(apiext.CPUBindPolicyFullPCPUs):
				for _, core := range nvSortedInts(perCore) {
					if k := perCore[core]; k != t.T {
						s.fail("policy", "fullpcpus"+by, "required FullPCPUs reported satisfied but core %d contributes %d of its %d CPUs: %v; %s", core, k, t.T, got.cpus, desc)
					}
				}
				s.r.Probe("required-fullpcpus-verified")
			case string(apiext.CPUBindPolicySpreadByPCPUs):
				for _, core := range nvSortedInts(perCore) {
					if k := perCore[core]; k != 1 {
						s.fail("policy", "spreadbypcpus"+by, "required SpreadByPCPUs reported satisfied but core %d contributes %d CPUs: %v; %s", core, k, got.cpus, desc)
					}
				}
				s.r.Probe("required-spread-verified")
			}
		}
	}

	// ---- NUMA-level oracles
	if hint == nil {
		if len(got.numa) != 0 {
			s.fail("numa-unrequested", "", "allocation without a NUMA hint carries NUMA amounts %s; %s", got, desc)
		}
	} else {
		s.r.Probe("alloc-numa-ok")
		if eff.bind {
			s.r.Probe("alloc-cpu+numa-ok")
		}
		inHint := map[int]bool{}
		for _, n := range hint {
			inHint[n] = true
		}
		sum := map[string]int64{}
		for _, n := range nvSortedInts(got.numa) {
			if !inHint[n] {
				s.fail("numa-outside-hint", "", "NUMA node %d is not in the hint %v: %s; %s", n, hint, got, desc)
			}
			for _, d := range nvSortedKeys(got.numa[n]) {
				v := got.numa[n][d]
				if v < 0 {
					s.fail("numa-negative", "", "negative amount %s=%d on NUMA node %d; %s", d, v, n, desc)
				}
				if v > freeMax[n][d] {
					s.fail("numa-over-free", nvDimSig(d), "NUMA node %d hands out %s=%d but had only %d free: %s; %s", n, d, v, freeMax[n][d], got, desc)
				}
				sum[d] += v
			}
		}
		// A pod confined to a Restricted reservation whose preempted owners hold NUMA amounts is served from those
		// amounts only (requiredResources): which dimensions exist there is not the node's question - the sum oracle
		// is suspended for exactly this dry-run configuration.
		restricted := false
		if resv != nil && resv.spec.RPol == string(schedulingv1alpha1.ReservationAllocatePolicyRestricted) {
			for _, uid := range victims {
				if s.holders[op.N][uid].via == resv.uid {
					restricted = true
				}
			}
		}
		if restricted {
			s.r.Probe("numa-sum-suspended:restricted-reservation-preemption")
		}
		for _, d := range nvSortedKeys(pod.spec.Req) {
			if restricted {
				break
			}
			want := pod.spec.Req[d]
			if !t.tracked(d) {
				want = 0 // not a NUMA-level resource on this node: nothing to hand out
			}
			if sum[d] != want {
				s.fail("numa-sum", nvDimSig(d), "requested %s=%d, NUMA nodes hand out %d in total: %s; %s", d, want, sum[d], got, desc)
			}
		}
		for _, d := range nvSortedKeys(sum) {
			if _, asked := pod.spec.Req[d]; !asked {
				s.fail("numa-sum", "unrequested-dim", "dimension %s was not requested: %s; %s", d, got, desc)
			}
		}
		if len(got.numa) > 1 {
			s.r.Probe("numa-split-over-several-nodes")
		}
	}

	if f := s.deferred; f != nil {
		s.deferred = nil
		f()
	}
	if op.Abandon || len(victims) > 0 {
		// the cycle is given up after the allocation was computed (another plugin's Reserve failed, or it was the
		// dry run of a preemption): nothing was recorded
		s.r.Probe("cycle-abandoned")
		return true
	}
	got.resv = pod.spec.Resv
	if resv != nil {
		got.via = resv.uid
	}
	s.cycle = &nvCycle{pod: pod, node: op.N, real: pa, alloc: got, bindFails: op.BindFails, bindFault: op.BindFault, cs: cs}
	delete(s.queue, op.P)
	s.assumed[op.P] = true
	return true
}

// carriesFailedAttempt: the pod's API object is unassigned and still carries the resource-status annotation an earlier
// binding attempt stored (PreBind patch applied, Bind call refused). C19 only: there the real Plugin.PreBind decides what
// the object carries when it is bound.
func (s *nvSim) carriesFailedAttempt(name string) bool {
	cur := s.pods[name]
	return s.c19 && cur != nil && cur.node == "" && !cur.alloc.empty()
}

// cycleWithoutAllocation: the plugin has nothing to allocate for this pod on this node (no CPU set is due, no NUMA
// hint): Reserve records nothing, the binding cycle still runs PreBind and Bind.
func (s *nvSim) cycleWithoutAllocation(pod *nvPodVer, op *nvOp, cs *framework.CycleState) bool {
	s.r.Event("allocate %s on %s: nothing to allocate, the pod carries the annotation of an earlier attempt", op.P, op.N)
	if op.Abandon {
		s.r.Probe("cycle-abandoned")
		return true
	}
	s.r.Probe("failed-attempt:cycle-that-allocates-nothing-for-a-pod-carrying-its-annotation")
	s.cycle = &nvCycle{pod: pod, node: op.N, none: true, bindFails: op.BindFails, bindFault: op.BindFault, cs: cs}
	delete(s.queue, op.P)
	s.assumed[op.P] = true
	return true
}

// allocateAsPlugin drives one allocation the way Plugin.allocate does. The real Plugin.RestoreReservation computes,
// from the ledger, what the reservations on the node hand back (their CPUs, the part their owner pods already took);
// then the sequence of allocateWithNominated follows: the real tryAllocateFromReusable for the reservation the pod
// allocates out of (no fallback when it produced nothing), otherwise the real tryAllocateFromNode. A preemption dry
// run passes the victims' CPUs / NUMA amounts as Plugin.RemovePod accumulates them (preemptibleNodeState).
func (s *nvSim) allocateAsPlugin(op *nvOp, pod *nvPodVer, nd *nvNode, opts *ResourceOptions, resv *nvPodVer, victims []string, cntFor func(int) int) (*PodAllocation, *fwktype.Status) {
	t := nd.topo
	hs := s.holders[op.N]
	uids := make([]string, 0, len(hs))
	for uid := range hs {
		uids = append(uids, uid)
	}
	sort.Strings(uids)
	// the reservation cache as the scheduler sees it
	rinfo := func(r *nvPodVer) *frameworkext.ReservationInfo {
		ri := &frameworkext.ReservationInfo{
			Reservation: &schedulingv1alpha1.Reservation{ObjectMeta: metav1.ObjectMeta{Name: r.name, UID: types.UID(r.uid)},
				Spec: schedulingv1alpha1.ReservationSpec{AllocatePolicy: schedulingv1alpha1.ReservationAllocatePolicy(r.spec.RPol)}},
			Pod:          r.obj,
			AssignedPods: map[types.UID]*frameworkext.PodRequirement{},
		}
		for _, uid := range uids {
			if hs[uid].via == r.uid {
				ri.AssignedPods[types.UID(uid)] = &frameworkext.PodRequirement{Namespace: "default", Name: strings.TrimPrefix(uid, "u-"), UID: types.UID(uid)}
			}
		}
		return ri
	}
	var matched, unmatched []*frameworkext.ReservationInfo
	names := make([]string, 0, len(s.resvAvail))
	for n := range s.resvAvail {
		names = append(names, n)
	}
	sort.Strings(names)
	for _, n := range names {
		r := s.resvAvail[n]
		if r.node != op.N || hs[r.uid].empty() {
			continue
		}
		if resv != nil && r.uid == resv.uid {
			matched = append(matched, rinfo(r))
		} else {
			unmatched = append(unmatched, rinfo(r))
		}
	}
	restore := &nodeReservationRestoreStateData{}
	if len(matched)+len(unmatched) > 0 {
		ni := framework.NewNodeInfo()
		ni.SetNode(nd.obj)
		pl := &Plugin{resourceManager: s.rm, topologyOptionsManager: s.tm}
		st, status := pl.RestoreReservation(context.TODO(), framework.NewCycleState(), pod.obj, matched, unmatched, ni)
		if !status.IsSuccess() {
			return nil, status
		}
		if v, ok := st.(*nodeReservationRestoreStateData); ok && v != nil {
			restore = v
		}
		s.r.Probe("restore-reservation-state")
	}
	victimCPUs := map[int]bool{}
	if len(victims) > 0 {
		ns := &preemptibleNodeState{reservationsAlloc: map[types.UID]*preemptibleAlloc{}}
		for _, uid := range victims {
			a := hs[uid]
			for _, c := range a.cpus {
				victimCPUs[c] = true
			}
			// Plugin.getPodAllocated
			cpus, _ := s.rm.GetAllocatedCPUSet(op.N, types.UID(uid))
			numa, _ := s.rm.GetAllocatedNUMAResource(op.N, types.UID(uid))
			if a.via != "" && !hs[a.via].empty() {
				// the victim allocated out of a reservation: its resources go back to that reservation
				ra := ns.reservationsAlloc[types.UID(a.via)]
				if ra == nil {
					ra = newPreemptibleAlloc()
					ns.reservationsAlloc[types.UID(a.via)] = ra
				}
				ra.Accumulate(cpus, numa)
				s.r.Probe("preemption-victim-of-a-reservation")
			} else {
				if ns.nodeAlloc == nil {
					ns.nodeAlloc = newPreemptibleAlloc()
				}
				ns.nodeAlloc.Accumulate(cpus, numa)
			}
		}
		opts.nodePreemptionState = ns
		s.r.Probe("preemption-dry-run")
	}
	if resv != nil || len(victims) > 0 {
		// the free set itself, with the sets this pod is entitled to restore: every CPU of a set gives back ONE reference
		var sets []cpuset.CPUSet
		if resv != nil {
			sets = append(sets, cpuset.NewCPUSet(hs[resv.uid].cpus...))
		}
		if len(victims) > 0 {
			sets = append(sets, cpuset.NewCPUSet(nvSortedInts(victimCPUs)...))
		}
		avail, _, err := s.rm.GetAvailableCPUs(op.N, sets...)
		if err != nil {
			s.fail("available", "error", "GetAvailableCPUs(%s): %v", op.N, err)
		} else {
			s.oracleEval()
			for c := 0; c < t.numCPUs(); c++ {
				want := !t.reserved(c) && cntFor(c) < t.Max
				if want != avail.Contains(c) {
					// reported after the oracles on what the allocation handed out (end of opSched)
					msg := fmt.Sprintf("node %s CPU %d: reported free=%v for a pod restoring %v, model free=%v (held by %d after giving back one reference per set, MaxRefCount %d, reserved=%v)",
						op.N, c, avail.Contains(c), sets, want, cntFor(c), t.Max, t.reserved(c))
					s.deferred = func() { s.fail("available", "free-set-restored", "%s", msg) }
					break
				}
			}
		}
	}
	if resv != nil {
		if alloc, ok := restore.matched[types.UID(resv.uid)]; ok {
			s.r.Probe("sched-out-of-reservation")
			if len(alloc.allocatableCPUs.Difference(alloc.remainedCPUs).ToSliceNoSort()) > 0 {
				s.r.Probe("sched-out-of-partly-used-reservation")
			}
			pa, status := tryAllocateFromReusable(s.rm, restore, opts, map[types.UID]reusableAlloc{types.UID(resv.uid): alloc}, pod.obj, nd.obj)
			if !status.IsSuccess() {
				return nil, status
			}
			if pa == nil {
				return nil, fwktype.NewStatus(fwktype.Unschedulable, "pod has a nominated reservation but cannot be allocated within its NUMA scope")
			}
			return pa, nil
		}
		s.r.Probe("reservation-not-restored(falls back to the node)")
	}
	return tryAllocateFromNode(s.rm, nil, restore, opts, pod.obj, nd.obj)
}

// allocateViaPluginGlue runs the scheduling half of one cycle through the real plugin: Plugin.PreFilter on the pod
// object (QoS class, priority class, resource spec), Plugin.Filter on the node (requestCPUBind with the node's CPU
// bind policy, SMT alignment, policy conflicts, the allocation dry run), then Plugin.allocate, the first half of
// Plugin.Reserve (getResourceOptions -> allocateWithNominated -> tryAllocateFromNode -> resourceManager.Allocate). A
// NUMA hint is an input of the cycle as everywhere in this engine (topology manager stubbed): the cycle then sees the
// node with the NUMA topology policy BestEffort - the policy under which Filter leaves the hint to Reserve - and the
// affinity store of the cycle state holds the hint. The allocation stays in the cycle state (preFilterState.allocation)
// for Reserve / Unreserve / PreBind.
func (s *nvSim) allocateViaPluginGlue(pod *nvPodVer, nd *nvNode, hint []int) (*PodAllocation, *fwktype.Status, *framework.CycleState) {
	ctx := context.TODO()
	cs := framework.NewCycleState()
	if _, st := s.pl.PreFilter(ctx, cs, pod.obj, nil); !st.IsSuccess() {
		s.r.Probe("nodepol:prefilter-refused")
		return nil, st, nil
	}
	node, numaPolicy := nd.obj, apiext.NUMATopologyPolicyNone
	if hint != nil {
		mask, err := bitmask.NewBitMask(hint...)
		if err != nil {
			s.r.HarnessFail("bitmask: %v", err)
		}
		node, numaPolicy = nd.hintedObj(), apiext.NUMATopologyPolicyBestEffort
		topologymanager.GetStore(cs).SetAffinity(nd.name, topologymanager.NUMATopologyHint{NUMANodeAffinity: mask})
	}
	ni := framework.NewNodeInfo()
	ni.SetNode(node)
	if st := s.pl.Filter(ctx, cs, pod.obj, ni); !st.IsSuccess() {
		class := "other"
		switch st.Message() {
		case ErrSMTAlignmentError:
			class = "smt-alignment"
		case ErrCPUBindPolicyConflict:
			class = "bind-policy-conflict"
		case ErrInvalidRequestedCPUs:
			class = "fractional-cpu-request"
		case ErrNotEnoughCPUs:
			class = "not-enough-cpus"
		case ErrInvalidCPUTopology:
			class = "invalid-topology"
		}
		s.r.Probe("nodepol:filter-refused:" + class)
		return nil, st, nil
	}
	if st := s.pl.allocate(ctx, cs, pod.obj, node, numaPolicy); !st.IsSuccess() {
		s.r.Probe("nodepol:allocate-refused-after-filter-passed")
		return nil, st, nil
	}
	state, st := getPreFilterState(cs)
	if !st.IsSuccess() {
		s.r.HarnessFail("cycle state lost: %s", st.Message())
	}
	return state.allocation, nil, cs
}

func nvPolSig(sp nvSpec, t *nvTopo) string {
	if np := t.nodePolicy(); np != "" {
		return "node-policy-" + np
	}
	p := sp.Pol
	if p == "" {
		p = "none"
	}
	if sp.Reqd {
		return "required-" + p
	}
	return "preferred-" + p
}

func nvDimSig(d string) string {
	switch d {
	case nvCPU, nvMem:
		return d
	}
	return "extended"
}

func nvSortedKeys(m map[string]int64) []string {
	ks := make([]string, 0, len(m))
	for k := range m {
		ks = append(ks, k)
	}
	sort.Strings(ks)
	return ks
}

func nvSortedStrKeys[V any](m map[string]V) []string {
	ks := make([]string, 0, len(m))
	for k := range m {
		ks = append(ks, k)
	}
	sort.Strings(ks)
	return ks
}

func nvSortedInts[V any](m map[int]V) []int {
	ks := make([]int, 0, len(m))
	for k := range m {
		ks = append(ks, k)
	}
	sort.Ints(ks)
	return ks
}

// opTake calls takePreferredCPUs directly with a set of preferred CPUs (what a
// matched reservation would hand back) on the node's current free set; nothing is recorded.
func (s *nvSim) opTake(op *nvOp) bool {
	nd := s.known[op.N]
	if nd == nil || op.CPUs < 1 {
		return false
	}
	t := nd.topo
	cnt := s.cpuCounts(op.N)
	avail, allocated, err := s.rm.GetAvailableCPUs(op.N)
	if err != nil {
		s.fail("available", "error", "GetAvailableCPUs(%s): %v", op.N, err)
		return true
	}
	// the free set itself is checked against the model: not reserved, below the sharing limit
	for c := 0; c < t.numCPUs(); c++ {
		free := !t.reserved(c) && cnt[c] < t.Max
		if free != avail.Contains(c) {
			s.fail("available", "free-set", "node %s CPU %d: reported free=%v, model free=%v (held by %d, MaxRefCount %d, reserved=%v)", op.N, c, avail.Contains(c), free, cnt[c], t.Max, t.reserved(c))
		}
	}
	if avail.Size() > 0 && avail.ToSlice()[avail.Size()-1] >= t.numCPUs() {
		s.fail("available", "free-set", "node %s reports unknown CPUs free: %v", op.N, avail.ToSlice())
	}
	if op.Pol == string(apiext.CPUBindPolicyFullPCPUs) && t.S >= 3 && t.T >= 2 {
		s.tagC06(nvTagTopUp)
	}
	topo := s.tm.GetTopologyOptions(op.N).CPUTopology
	strategy := GetNUMAAllocateStrategy(nd.obj, s.rm.numaAllocateStrategy)
	got, err := takePreferredCPUs(topo, t.Max, avail, cpuset.NewCPUSet(op.Pref...), allocated, op.CPUs,
		schedulingconfig.CPUBindPolicy(op.Pol), schedulingconfig.CPUExclusivePolicy(op.Excl), strategy)
	s.oracleEval()
	s.r.Event("take %s n=%d pol=%s excl=%s pref=%v ok=%v %v", op.N, op.CPUs, op.Pol, op.Excl, op.Pref, err == nil, got.ToSlice())
	if err != nil {
		s.r.Probe("take-preferred-fail")
		return true
	}
	s.r.Probe("take-preferred-ok")
	if got.Size() != op.CPUs {
		s.fail("cpu-count", "take-preferred", "takePreferredCPUs: asked for %d CPUs, got %d (%v); preferred %v, free %v", op.CPUs, got.Size(), got.ToSlice(), op.Pref, avail.ToSlice())
	}
	fromPref := 0
	for _, c := range got.ToSlice() {
		if t.reserved(c) {
			s.fail("cpu-not-free", "reserved", "takePreferredCPUs took reserved CPU %d: %v", c, got.ToSlice())
		}
		if _, ok := t.pos(c); !ok || cnt[c] >= t.Max {
			s.fail("cpu-not-free", "refcount", "takePreferredCPUs took CPU %d held by %d pods (MaxRefCount %d): %v", c, cnt[c], t.Max, got.ToSlice())
		}
		for _, pc := range op.Pref {
			if pc == c {
				fromPref++
			}
		}
	}
	if fromPref > 0 {
		s.r.Probe("take-preferred-used-preferred")
	}
	return true
}

// commit is the second half of Reserve: resourceManager.Update with the allocation.
func (s *nvSim) commit() {
	c := s.cycle
	s.cycle = nil
	if c.stepsIn > 0 {
		s.r.Probe("events-between-allocate-and-update")
	}
	if c.none {
		// nothing was allocated: the real Reserve (plugin-glue cycles) finds nothing to record
		if c.cs != nil {
			if st := s.pl.Reserve(context.TODO(), c.cs, c.pod.obj, c.node); !st.IsSuccess() {
				// Without an allocation in the cycle state the real Reserve looks the node up again; the node was deleted
				// since the allocation half of the cycle (the fake handle serves the API store as the snapshot). A failed
				// Reserve ends the attempt the way kube-scheduler ends it: Unreserve, the pod goes back to the queue.
				if s.nodes[c.node] != nil {
					s.r.HarnessFail("Reserve of a cycle without an allocation failed although node %s exists: %s", c.node, st.Message())
				}
				s.pl.Unreserve(context.TODO(), c.cs, c.pod.obj, c.node)
				delete(s.assumed, c.pod.name)
				if cur := s.pods[c.pod.name]; cur != nil && cur.node == "" {
					s.queue[c.pod.name] = cur
				}
				s.r.Probe("failed-attempt:reserve-of-a-cycle-that-allocates-nothing-fails(node deleted)")
				s.r.Event("reserve %s on %s failed: %s; unreserve", c.pod.name, c.node, st.Message())
				return
			}
			if state, st := getPreFilterState(c.cs); !st.IsSuccess() || state.allocation != nil {
				// not reachable: a node's policy does not change while a cycle on it is in flight
				s.r.HarnessFail("Reserve of a cycle that had nothing to allocate produced an allocation")
			}
		}
		s.binds = append(s.binds, c)
		s.r.Event("commit %s on %s: nothing allocated", c.pod.name, c.node)
		return
	}
	if c.cs != nil {
		// the second half of the real Plugin.Reserve (the allocation is in the cycle state): resourceManager.Update
		if st := s.pl.Reserve(context.TODO(), c.cs, c.pod.obj, c.node); !st.IsSuccess() {
			s.r.HarnessFail("Reserve with an allocation in the cycle state failed: %s", st.Message())
		}
	} else {
		s.rm.Update(c.node, c.real)
	}
	if s.known[c.node] != nil {
		s.hold(c.node, c.pod.uid, c.alloc)
	} else {
		s.r.Probe("commit-without-topology")
	}
	if !s.schedNodes[c.node] {
		s.r.Probe("commit-after-node-delete")
		if s.known[c.node] != nil {
			s.r.Probe("commit-after-node-delete-topology-still-known")
		}
	}
	s.binds = append(s.binds, c)
	s.r.Event("commit %s on %s %s", c.pod.name, c.node, c.alloc)
}

// bindResult resolves one binding cycle. The binding cycle makes TWO API writes: PreBind patches the allocation into the
// pod's annotations while the pod is still unassigned (frameworkext RunPreBindPlugins -> defaultprebind ApplyPatch), then
// the Bind call sets spec.nodeName. Every watcher therefore sees update(pending -> pending + resource-status) followed by
// update(... -> bound, same resource-status). Outcomes: both writes succeed; the first write is refused (nothing is
// written); the patch is stored and the Bind call is refused (the pod stays pending, carrying the annotation); both
// writes are applied but the Bind call reports an error to the scheduler (lost acknowledgement). In every failing
// outcome the framework runs Unreserve and the pod goes back to the queue.
func (s *nvSim) bindResult(i int) {
	c := s.binds[i]
	s.binds = append(s.binds[:i:i], s.binds[i+1:]...)
	cur := s.pods[c.pod.name]
	possible := cur != nil && cur.node == "" && s.nodes[c.node] != nil
	fault := ""
	if c.bindFails {
		fault = "refused"
		if c.bindFault == "patched" || c.bindFault == "lost-ack" {
			fault = c.bindFault
		}
	}
	var persisted map[string]string
	preBindFailed, patched, bound := false, false, false
	if possible && fault != "refused" {
		if s.c19 {
			// C19: the binding cycle runs the real Plugin.PreBind on a copy of the pod; what it writes is what the API server stores
			persisted, preBindFailed = s.preBind(c, cur)
		}
		if !preBindFailed {
			// write 1: the annotation patch; the pod is still unassigned
			nv := *cur
			nv.alloc, nv.rv = c.alloc, s.bump()
			if s.exclOther[c.pod.uid] && c.alloc != nil {
				// what the API object says: the allocation, with the exclusive policy its resource spec names
				a := *c.alloc
				a.excl = c.pod.spec.Excl
				nv.alloc = &a
			}
			nv.ann = persisted
			s.pods[c.pod.name] = s.mkPod(&nv)
			s.emit(nvEvent{typ: "pod", kind: "update", old: cur, new: s.pods[c.pod.name]})
			s.r.Event("prebind-patch %s for %s %s", c.pod.name, c.node, nv.alloc)
			if !cur.alloc.empty() {
				s.r.Probe("prebind-patch-overwrites-the-annotation-of-an-earlier-attempt")
			}
			patched = true
		}
	}
	if patched && fault != "patched" {
		// write 2: the Bind call
		prev := s.pods[c.pod.name]
		nv := *prev
		nv.node, nv.rv = c.node, s.bump()
		s.pods[c.pod.name] = s.mkPod(&nv)
		s.emit(nvEvent{typ: "pod", kind: "update", old: prev, new: s.pods[c.pod.name]})
		s.r.Event("bound %s on %s", c.pod.name, c.node)
		bound = true
		if s.c19 {
			// crash point: the scheduler dies right after this bind; a fresh one starts from the API objects
			s.fork("bind of "+c.pod.name, false)
		}
	}
	if bound && fault == "" {
		return
	}
	// Plugin.Unreserve
	if c.cs != nil {
		s.pl.Unreserve(context.TODO(), c.cs, c.pod.obj, c.node)
	} else if !c.none {
		s.rm.Release(c.node, types.UID(c.pod.uid))
	}
	s.unhold(c.node, c.pod.uid)
	delete(s.assumed, c.pod.name)
	switch {
	case cur == nil:
		s.r.Probe("bind-after-pod-delete")
	case cur.node != "":
		s.r.Probe("bind-of-a-pod-that-is-already-bound")
	case s.nodes[c.node] == nil:
		s.r.Probe("bind-after-node-delete")
		s.queue[c.pod.name] = cur
	case preBindFailed:
		s.r.Probe("c19:prebind-failed-unreserve")
		s.queue[c.pod.name] = cur
	case bound:
		// lost acknowledgement: the pod IS bound; the scheduler does not know and puts it back into its queue (its informer
		// cache still holds the pending version) until the pod informer reports the pod
		s.r.Probe("lost-bind-ack:unreserve-of-a-bound-pod")
		s.queue[c.pod.name] = cur
		s.lostAck[c.pod.name] = c.node
	case patched:
		s.r.Probe("bind-refused-after-the-prebind-patch(annotation stays on the pending pod)")
		s.queue[c.pod.name] = cur // back to the scheduling queue (the informer will report the patched version)
	default:
		s.r.Probe("bind-failed-unreserve")
		s.queue[c.pod.name] = cur // back to the scheduling queue
	}
	s.r.Event("unreserve %s on %s (%s)", c.pod.name, c.node, fault)
}

// ---------------------------------------------------------------- ledger oracles

func (s *nvSim) realNodes() map[string]*NodeAllocation {
	s.rm.lock.Lock()
	defer s.rm.lock.Unlock()
	out := map[string]*NodeAllocation{}
	for k, v := range s.rm.nodeAllocations {
		out[k] = v
	}
	return out
}

// checkLedger: after every step the real ledger must equal the sum of the
// allocations of the pods the scheduler was told are live (event-level model).
func (s *nvSim) checkLedger(after string) {
	real := s.realNodes()
	names := map[string]bool{}
	for n := range real {
		names[n] = true
	}
	for n := range s.holders {
		names[n] = true
	}
	sorted := make([]string, 0, len(names))
	for n := range names {
		sorted = append(sorted, n)
	}
	sort.Strings(sorted)
	s.oracleEval()
	for _, node := range sorted {
		na := real[node]
		hs := s.holders[node]
		var pods map[types.UID]PodAllocation
		var cpus CPUDetails
		var res map[int]*NUMANodeResource
		if na != nil {
			pods, cpus, res = na.allocatedPods, na.allocatedCPUs, na.allocatedResources
		}
		// pods
		for uid, pa := range pods {
			a := hs[string(uid)]
			if a == nil {
				s.fail("ledger", "ghost-pod", "after %s: node %s ledger holds pod %s (%s) that is not live", after, node, uid, nvFromReal(&pa))
			}
			if g := nvFromReal(&pa); g.String() != a.String() {
				s.fail("ledger", "pod-allocation", "after %s: node %s pod %s recorded as %s, live allocation is %s", after, node, uid, g, a)
			}
		}
		for uid, a := range hs {
			if _, ok := pods[types.UID(uid)]; !ok {
				s.fail("ledger", "lost-pod", "after %s: node %s ledger lost live pod %s (%s)", after, node, uid, a)
			}
		}
		// CPUs
		cnt := s.cpuCounts(node)
		if nd := s.nodes[node]; nd != nil && s.known[node] == nd {
			sh := nvSharing(hs)
			for _, c := range nvSortedInts(sh) {
				if sh[c] > nd.topo.Max {
					s.fail("refcount-exceeds-max", "", "after %s: node %s CPU %d is used by %d live pods / unconsumed reservations (%d holders), MaxRefCount %d", after, node, c, sh[c], cnt[c], nd.topo.Max)
				}
			}
		}
		for c, info := range cpus {
			if info.RefCount != cnt[c] {
				s.fail("ledger", "cpu-refcount", "after %s: node %s CPU %d ref count %d, live pods holding it %d", after, node, c, info.RefCount, cnt[c])
			}
			if info.RefCount <= 0 {
				s.fail("ledger", "cpu-refcount-zero-entry", "after %s: node %s CPU %d kept with ref count %d", after, node, c, info.RefCount)
			}
		}
		for c, k := range cnt {
			if _, ok := cpus[c]; !ok && k > 0 {
				s.fail("ledger", "cpu-refcount", "after %s: node %s CPU %d not in the ledger, live pods holding it %d", after, node, c, k)
			}
		}
		// per-NUMA amounts
		used := s.numaUsed(node)
		for n, nr := range res {
			for d, q := range nr.Resources {
				if v := nvVal(string(d), q); v != used[n][string(d)] {
					s.fail("ledger", "numa-amount", "after %s: node %s NUMA %d %s ledger %d, sum over live pods %d", after, node, n, d, v, used[n][string(d)])
				}
			}
		}
		for n, m := range used {
			for d, v := range m {
				var have int64
				if res[n] != nil {
					if q, ok := res[n].Resources[corev1.ResourceName(d)]; ok {
						have = nvVal(d, q)
					}
				}
				if have != v {
					s.fail("ledger", "numa-amount", "after %s: node %s NUMA %d %s ledger %d, sum over live pods %d", after, node, n, d, have, v)
				}
			}
		}
	}
}

func (s *nvSim) quiescent() bool {
	return s.cycle == nil && len(s.binds) == 0 && len(s.streams["pod"]) == 0 && len(s.streams["nrt"]) == 0 && len(s.streams["node"]) == 0
}

// checkQuiescent: with every event delivered and no cycle in flight, the real
// ledger must equal the sum over the live pods in the API server (bound, not
// terminated, with a persisted allocation), and no CPU may exceed MaxRefCount.
func (s *nvSim) checkQuiescent() {
	s.oracleEval()
	real := s.realNodes()
	names := make([]string, 0, len(real))
	for n := range real {
		names = append(names, n)
	}
	for n := range s.nodes {
		if real[n] == nil {
			names = append(names, n)
		}
	}
	sort.Strings(names)
	var state []string
	for _, node := range names {
		cnt := map[int]int{}
		used := map[int]map[string]int64{}
		live := map[string]*nvAlloc{}
		nd := s.nodes[node]
		if nd != nil {
			for _, pn := range nvSortedPodNames(s.pods) {
				p := s.pods[pn]
				if p.node != node || p.term || p.alloc.empty() {
					continue
				}
				live[p.uid] = p.alloc
				for _, c := range p.alloc.cpus {
					cnt[c]++
				}
				for n, m := range p.alloc.numa {
					if used[n] == nil {
						used[n] = map[string]int64{}
					}
					for d, v := range m {
						used[n][d] += v
					}
				}
			}
		}
		na := real[node]
		var cpus CPUDetails
		var res map[int]*NUMANodeResource
		if na != nil {
			cpus, res = na.allocatedCPUs, na.allocatedResources
		}
		for c, info := range cpus {
			if info.RefCount != cnt[c] {
				s.fail("ledger-live", "cpu-refcount", "quiescent: node %s CPU %d ref count %d, live API pods holding it %d", node, c, info.RefCount, cnt[c])
			}
		}
		for c, k := range cnt {
			if cpus[c].RefCount != k {
				s.fail("ledger-live", "cpu-refcount", "quiescent: node %s CPU %d ref count %d, live API pods holding it %d", node, c, cpus[c].RefCount, k)
			}
		}
		if nd != nil {
			sh := nvSharing(live)
			for _, c := range nvSortedInts(sh) {
				if sh[c] > nd.topo.Max {
					s.fail("refcount-exceeds-max", "", "quiescent: node %s CPU %d is used by %d live pods / unconsumed reservations (%d holders), MaxRefCount %d", node, c, sh[c], cnt[c], nd.topo.Max)
				}
			}
		}
		for n, nr := range res {
			for d, q := range nr.Resources {
				if v := nvVal(string(d), q); v != used[n][string(d)] {
					s.fail("ledger-live", "numa-amount", "quiescent: node %s NUMA %d %s ledger %d, sum over live API pods %d", node, n, d, v, used[n][string(d)])
				}
			}
		}
		for n, m := range used {
			for d, v := range m {
				var have int64
				if res[n] != nil {
					if q, ok := res[n].Resources[corev1.ResourceName(d)]; ok {
						have = nvVal(d, q)
					}
				}
				if have != v {
					s.fail("ledger-live", "numa-amount", "quiescent: node %s NUMA %d %s ledger %d, sum over live API pods %d", node, n, d, have, v)
				}
				if nd != nil {
					if c := nd.topo.capacity(n)[d]; v > c {
						s.fail("numa-over-capacity", nvDimSig(d), "quiescent: node %s NUMA %d %s: live pods hold %d of capacity %d", node, n, d, v, c)
					}
				}
			}
		}
		cs := nvSortedInts(cnt)
		var sb strings.Builder
		for _, c := range cs {
			fmt.Fprintf(&sb, "%d:%d ", c, cnt[c])
		}
		for _, n := range nvSortedInts(used) {
			fmt.Fprintf(&sb, "n%d{%s} ", n, nvFmt(used[n]))
		}
		state = append(state, node+"["+sb.String()+"]")
	}
	s.r.Event("quiescent %s", strings.Join(state, " "))
}

func nvSortedPodNames(m map[string]*nvPodVer) []string {
	ks := make([]string, 0, len(m))
	for k := range m {
		ks = append(ks, k)
	}
	sort.Strings(ks)
	return ks
}

// checkEmpty: after everything was released the ledger is empty.
func (s *nvSim) checkEmpty() {
	s.oracleEval()
	real := s.realNodes()
	names := make([]string, 0, len(real))
	for n := range real {
		names = append(names, n)
	}
	sort.Strings(names)
	for _, node := range names {
		na := real[node]
		if len(na.allocatedPods) != 0 {
			s.fail("release-empty", "pods", "everything released, node %s still records %d pods", node, len(na.allocatedPods))
		}
		if len(na.allocatedCPUs) != 0 {
			s.fail("release-empty", "cpus", "everything released, node %s still records CPUs %v", node, na.allocatedCPUs.CPUs().ToSlice())
		}
		for n, nr := range na.allocatedResources {
			for d, q := range nr.Resources {
				if !q.IsZero() {
					s.fail("release-empty", "numa-amount", "everything released, node %s NUMA %d still records %s=%s", node, n, d, q.String())
				}
			}
		}
		for n, set := range na.sharedNode {
			if len(set) != 0 {
				s.fail("release-empty", "numa-status", "everything released, node %s NUMA %d still marked shared by %v", node, n, set.List())
			}
		}
		for n, set := range na.singleNUMANode {
			if len(set) != 0 {
				s.fail("release-empty", "numa-status", "everything released, node %s NUMA %d still marked single by %v", node, n, set.List())
			}
		}
	}
	s.r.Probe("final-empty-check")
}

// ---------------------------------------------------------------- follower
//
// The follower is a second instance of the plugin's caches (topology manager, resourceManager, pod event handler) in
// the same run: a stand-by replica of the scheduler. It never runs a cycle (no Allocate, no Reserve / Update of its
// own, no Unreserve); everything it knows it learned from its own informers, which see every API write of the run as an
// event: pod adds, the PreBind-patch update (annotation, still unassigned), the Bind update (node name, same annotation),
// terminations, resyncs, deletes (incl. tombstones), NodeResourceTopology / node deletes - per informer in write order,
// the informers interleaved by the deliver tape independently of the scheduler's own informers, with its own coalesced
// updates and repeated (resync / same-allocation) updates. Oracle, from the statement only: whenever the follower has
// been told everything (its streams are drained), its ledger is exactly what the bound, live pods of the API store hold
// according to their persisted annotations - the instance that learned the allocations from the informer must not know
// less (or more) than the instance that made them - and nothing such a pod holds is offered by it.

type nvFollower struct {
	tm      TopologyOptionsManager
	rm      *resourceManager
	h       *podEventHandler
	streams map[string][]nvEvent
	checks  int
	// history of the follower, kept only to know the history class of the recorded finding nvTagStacked on ITS ledger:
	// the bound live pods it has been told about (node -> uid -> persisted allocation) and the CPUs on which it was told
	// to stack pods with different persisted exclusive policies
	told  map[string]map[string]*nvAlloc
	mixed map[string]map[int]bool
}

// tell records that the follower was told that the pod holds the persisted allocation a on the node (a == nil: no longer).
func (f *nvFollower) tell(node, uid string, a *nvAlloc) {
	if a == nil {
		delete(f.told[node], uid)
		return
	}
	if f.told[node] == nil {
		f.told[node] = map[string]*nvAlloc{}
	}
	for ouid, o := range f.told[node] {
		if ouid == uid || nvExclNorm(o.excl) == nvExclNorm(a.excl) {
			continue
		}
		for _, c := range a.cpus {
			for _, oc := range o.cpus {
				if c == oc {
					if f.mixed[node] == nil {
						f.mixed[node] = map[int]bool{}
					}
					f.mixed[node][c] = true
				}
			}
		}
	}
	f.told[node][uid] = a
}

func (f *nvFollower) pendingFor(node string) bool {
	for _, ev := range f.streams["pod"] {
		if (ev.new != nil && ev.new.node == node) || (ev.old != nil && ev.old.node == node) {
			return true
		}
	}
	for _, typ := range []string{"nrt", "node"} {
		for _, ev := range f.streams[typ] {
			if ev.node == node {
				return true
			}
		}
	}
	return false
}

func (f *nvFollower) drained() bool {
	return len(f.streams["pod"]) == 0 && len(f.streams["nrt"]) == 0 && len(f.streams["node"]) == 0
}

// deliverFollower hands the next event of one of the follower's informers to the follower's handlers.
func (s *nvSim) deliverFollower(typ string) {
	f := s.fw
	q := f.streams[typ]
	ev := q[0]
	q = q[1:]
	if typ == "pod" && ev.kind == "update" && len(q) > 0 && q[0].kind == "update" && q[0].new.name == ev.new.name && s.r.Flip(0.15) {
		// coalescing: consecutive updates of one object merged by the informer
		ev = nvEvent{typ: "pod", kind: "update", old: ev.old, new: q[0].new}
		q = q[1:]
		s.r.Probe("follower:coalesced-update")
	}
	f.streams[typ] = q
	switch typ {
	case "nrt":
		f.tm.Delete(ev.node)
		s.r.Event("follower nrt delete %s", ev.node)
	case "node":
		if s.r.Flip(0.2) {
			f.rm.onNodeDelete(cache.DeletedFinalStateUnknown{Key: ev.node, Obj: ev.nodeObj})
		} else {
			f.rm.onNodeDelete(ev.nodeObj)
		}
		delete(f.told, ev.node)
		delete(f.mixed, ev.node)
		s.r.Event("follower node delete %s", ev.node)
	case "pod":
		switch ev.kind {
		case "add", "update":
			v := ev.new
			if ev.kind == "add" {
				f.h.OnAdd(v.obj, false)
			} else {
				f.h.OnUpdate(ev.old.obj, v.obj)
				switch {
				case ev.old.node == "" && v.node != "" && !ev.old.alloc.empty():
					// the Bind update: the previous version already carried the allocation (PreBind patch), this is the first with a node
					s.r.Probe("follower:bind-update-after-prebind-patch")
				case ev.old.node == "" && v.node != "":
					s.r.Probe("follower:bind-update-coalesced-with-prebind-patch")
				case ev.old.node == "" && v.node == "" && !v.alloc.empty():
					s.r.Probe("follower:prebind-patch-update")
				}
			}
			s.r.Event("follower pod %s %s node=%s term=%v %s", ev.kind, v.name, v.node, v.term, v.alloc)
			switch {
			case v.node == "":
			case v.term:
				f.tell(v.node, v.uid, nil)
			case !v.alloc.empty():
				f.tell(v.node, v.uid, v.alloc)
			}
			// what an informer may repeat at any time: a resync of the version it holds, an update that touches something else
			if s.r.Flip(0.06) {
				f.h.OnUpdate(v.obj, v.obj)
				s.r.Probe("follower:resync")
			}
			if s.r.Flip(0.04) {
				f.h.OnUpdate(v.obj, s.nvTouched(v, false))
				s.r.Probe("follower:same-allocation-update")
			}
		case "delete":
			v := ev.old
			if s.r.Flip(0.2) {
				f.h.OnDelete(cache.DeletedFinalStateUnknown{Key: "default/" + v.name, Obj: v.obj})
			} else {
				f.h.OnDelete(v.obj)
			}
			s.r.Event("follower pod delete %s node=%s", v.name, v.node)
			if v.node != "" {
				f.tell(v.node, v.uid, nil)
			}
		}
	}
}

// checkFollower: the follower has been told everything that happened (its streams are drained): its ledger must be
// exactly what the bound, live pods of the API store hold; under C19 also the free CPU set / probe allocations of (c).
func (s *nvSim) checkFollower(after string, probe bool) {
	f := s.fw
	if !f.drained() {
		s.r.HarnessFail("follower checked while events are in flight")
	}
	f.checks++
	s.r.Probe("follower:ledger-compared-with-the-store")
	oracle := "follower-ledger"
	if s.c19 {
		oracle = "follower-vs-persisted"
	}
	f.rm.lock.Lock()
	real := map[string]*NodeAllocation{}
	for k, v := range f.rm.nodeAllocations {
		real[k] = v
	}
	f.rm.lock.Unlock()
	names := map[string]bool{}
	for n := range real {
		names[n] = true
	}
	for n := range s.nodes {
		names[n] = true
	}
	var state []string
	for _, node := range nvSortedStrKeys(names) {
		expected := map[string]nvHolder{}
		relaxed := map[string]bool{}
		t := &nvTopo{}
		if nd := s.nodes[node]; nd != nil {
			t = nd.topo
			for _, pn := range nvSortedPodNames(s.pods) {
				v := s.pods[pn]
				if v.node != node || v.term || v.alloc.empty() {
					continue
				}
				expected[v.uid] = nvHolder{name: v.name, alloc: v.alloc}
				if !s.c19 {
					relaxed[v.uid] = true // the exclusive policy recorded with an allocation is not C06's subject
				}
			}
		}
		what := fmt.Sprintf("after %s (check %d of the follower), ledger of the instance that only follows the informer events vs bound pods of the API store", after, f.checks)
		stacked := f.mixed[node]
		if stacked == nil {
			stacked = map[int]bool{}
		}
		s.compareLedger(oracle, "event-stream", what, node, real[node], nvDerive(t, expected), t, relaxed, stacked)
		if probe && s.nodes[node] != nil {
			s.probeAfterRestart("follower-event-stream", after+" (follower instance)", node, f.rm, f.tm, nvDerive(t, expected))
		}
		state = append(state, node+"["+nvLedgerString(real[node])+"]")
	}
	s.r.Event("follower drained %s", strings.Join(state, " "))
}

// ---------------------------------------------------------------- execution

func (nvEngine) Execute(r *sim.Run) {
	s := &nvSim{r: r, nodes: map[string]*nvNode{}, pods: map[string]*nvPodVer{}, streams: map[string][]nvEvent{},
		known: map[string]*nvNode{}, schedNodes: map[string]bool{}, queue: map[string]*nvPodVer{}, assumed: map[string]bool{}, holders: map[string]map[string]*nvAlloc{}, resvAvail: map[string]*nvPodVer{}}
	r.Plan.GetCfg(&s.cfg)
	var ops []nvOp
	r.Plan.GetOps(&ops)
	s.tm = NewTopologyOptionsManager()
	s.rm = &resourceManager{
		numaAllocateStrategy:   schedulingconfig.NUMAAllocateStrategy(s.cfg.Strategy),
		topologyOptionsManager: s.tm,
		nodeAllocations:        map[string]*NodeAllocation{},
	}
	s.h = &podEventHandler{resourceManager: s.rm}
	s.lostAck = map[string]string{}
	ftm := NewTopologyOptionsManager()
	frm := &resourceManager{numaAllocateStrategy: s.rm.numaAllocateStrategy, topologyOptionsManager: ftm, nodeAllocations: map[string]*NodeAllocation{}}
	s.fw = &nvFollower{tm: ftm, rm: frm, h: &podEventHandler{resourceManager: frm}, streams: map[string][]nvEvent{},
		told: map[string]map[string]*nvAlloc{}, mixed: map[string]map[int]bool{}}
	// the real plugin: PreBind under C19; the whole glue for the cycles on nodes with a node-level CPU bind policy.
	// The scheduler's default bind policy is a configuration input of the harness.
	s.pl = &Plugin{handle: &nvHandle{snapshot: &nvSnapshot{s: s}}, resourceManager: s.rm, topologyOptionsManager: s.tm,
		pluginArgs: &schedulingconfig.NodeNUMAResourceArgs{DefaultCPUBindPolicy: schedulingconfig.CPUBindPolicyFullPCPUs}}
	if r.Prop == "C19" {
		s.c19 = true
		s.mixed = map[string]map[int]bool{}
		s.exclOther = map[string]bool{}
	}
	r.Sample("cfg %+v", s.cfg)

	next := 0
	for {
		// who can move next; order chosen so that tape value 0 = "finish what is in flight before the next operation"
		type choice struct {
			kind string
			i    int
		}
		var cs []choice
		if s.cycle != nil {
			cs = append(cs, choice{"commit", 0})
		}
		for _, typ := range []string{"nrt", "pod", "node"} {
			if len(s.streams[typ]) > 0 {
				cs = append(cs, choice{typ, 0})
			}
		}
		for _, typ := range []string{"nrt", "pod", "node"} {
			if len(s.fw.streams[typ]) > 0 {
				cs = append(cs, choice{"follower-" + typ, 0})
			}
		}
		for i := range s.binds {
			cs = append(cs, choice{"bind", i})
		}
		if next < len(ops) && !(ops[next].K == "sched" && s.cycle != nil) {
			cs = append(cs, choice{"op", 0})
		}
		if len(cs) == 0 {
			break
		}
		c := cs[r.Choose(len(cs))]
		s.steps++
		after := c.kind
		switch c.kind {
		case "commit":
			s.commit()
		case "nrt", "pod", "node":
			after = "delivery on the " + c.kind + " stream"
			s.deliver(c.kind)
		case "follower-nrt", "follower-pod", "follower-node":
			after = "delivery on the follower's " + strings.TrimPrefix(c.kind, "follower-") + " stream"
			s.deliverFollower(strings.TrimPrefix(c.kind, "follower-"))
			if s.fw.drained() {
				s.checkFollower(after, false)
			}
		case "bind":
			s.bindResult(c.i)
		case "op":
			op := &ops[next]
			next++
			after = op.K + " " + op.P + op.N
			if s.cycle != nil {
				s.cycle.stepsIn++
			}
			ok := false
			switch op.K {
			case "node_add":
				ok = s.opNodeAdd(op)
			case "node_del":
				ok = s.opNodeDel(op)
			case "pod_create":
				ok = s.opPodCreate(op)
			case "pod_delete":
				ok = s.opPodDelete(op)
			case "pod_term":
				ok = s.opPodTerm(op)
			case "resync":
				ok = s.opResync(op)
			case "sched":
				ok = s.opSched(op)
			case "take":
				ok = s.opTake(op)
			}
			if ok {
				r.OpDone()
			} else {
				r.OpSkipped()
			}
		}
		s.checkLedger(after)
		if s.quiescent() {
			s.checkQuiescent()
		}
	}
	if !s.quiescent() || !s.fw.drained() {
		r.HarnessFail("loop ended while work is in flight")
	}
	// the follower at the end of the history (under C19 with the free-set / probe-allocation oracle); checked before the
	// last crash point because that one reports the deferred differences of the recorded findings
	s.checkFollower("end of history", s.c19)
	if s.c19 {
		// one more crash point: the end of the history (every event delivered, nothing in flight)
		s.fork("end of history", true)
	}
	// release everything: every pod is deleted and every delete is delivered
	for _, pn := range nvSortedPodNames(s.pods) {
		s.opPodDelete(&nvOp{K: "pod_delete", P: pn})
	}
	for len(s.streams["pod"]) > 0 {
		s.deliver("pod")
		s.checkLedger("final delete")
	}
	s.checkQuiescent()
	s.checkEmpty()
	for len(s.fw.streams["pod"]) > 0 {
		s.deliverFollower("pod")
	}
	s.checkFollower("final delete", false)
}

// ---------------------------------------------------------------- generation

// nvGenNodePolicy draws the node-level CPU bind policy of a node in a run that has such nodes.
func nvGenNodePolicy(g *sim.Rng) string {
	return g.Pick("FullPCPUsOnly", "FullPCPUsOnly", "FullPCPUsOnly", "SpreadByPCPUs", "SpreadByPCPUs", nvKubeletFullPCPUs, "None", "")
}

// nvGenOtherQoS draws a QoS class whose pods never ask for a CPU set themselves.
func nvGenOtherQoS(g *sim.Rng) string {
	return g.Pick("LS", "LS", "LS", "LS", "none", "BE", "LSR-mid")
}

func nvGenTopo(g *sim.Rng, thorough, wide bool) *nvTopo {
	t := &nvTopo{S: g.PickInt(1, 1, 2), NPS: g.PickInt(1, 2, 2, 4), C: g.PickInt(1, 2, 2, 3, 4, 4, 5, 6, 7, 8), T: g.PickInt(1, 2, 2)}
	if !thorough && t.numCPUs() > 48 && g.Bool(0.7) {
		t.C = g.PickInt(1, 2, 3)
	}
	if wide && g.Bool(0.2) {
		// three and four socket machines (total CPU count kept modest)
		t.S, t.NPS, t.C = g.PickInt(3, 3, 4), g.PickInt(1, 1, 2), g.PickInt(1, 2, 2, 3, 4)
	}
	if t.T == 2 && g.Bool(0.4) {
		t.Lay = 1
	}
	t.Max = g.PickInt(1, 1, 1, 1, 2, 2, 3)
	if g.Bool(0.4) {
		k := g.Range(1, 4)
		if k > t.numCPUs()/2 {
			k = t.numCPUs() / 2
		}
		seen := map[int]bool{}
		for i := 0; i < k; i++ {
			c := g.Intn(t.numCPUs())
			if g.Bool(0.5) {
				c = i // the first CPUs (typical kubelet reservation)
			}
			if !seen[c] {
				seen[c] = true
				t.Res = append(t.Res, c)
			}
		}
		sort.Ints(t.Res)
	}
	unit := g.PickI64(1, 1, 1<<20, 1<<30)
	for n := 0; n < t.numNodes(); n++ {
		m := g.I64n(17) * unit
		if unit > 1 && g.Bool(0.3) {
			m += g.I64n(unit)
		}
		t.Mem = append(t.Mem, m)
	}
	if g.Bool(0.5) {
		for n := 0; n < t.numNodes(); n++ {
			switch g.Intn(5) {
			case 0:
				t.Ext = append(t.Ext, -1)
			case 1:
				t.Ext = append(t.Ext, 0)
			default:
				t.Ext = append(t.Ext, 1+g.I64n(8))
			}
		}
	}
	t.Strat = g.Pick("", "", "", "MostAllocated", "LeastAllocated", "DistributeEvenly")
	return t
}

func nvGenHint(g *sim.Rng, t *nvTopo) []int {
	k := t.numNodes()
	var h []int
	switch {
	case g.Bool(0.15): // every node
		for n := 0; n < k; n++ {
			h = append(h, n)
		}
	case g.Bool(0.2): // one node
		h = []int{g.Intn(k)}
	default:
		for n := 0; n < k; n++ {
			if g.Bool(0.5) {
				h = append(h, n)
			}
		}
		if len(h) == 0 {
			h = []int{g.Intn(k)}
		}
	}
	return h
}

// nvGenSpec draws a pod; when hint != nil the amounts are scaled to what the hinted nodes can hold.
func nvGenSpec(g *sim.Rng, t *nvTopo, hint []int) nvOp {
	op := nvOp{K: "pod_create", Req: map[string]int64{}}
	nodes := hint
	if nodes == nil {
		for n := 0; n < t.numNodes(); n++ {
			nodes = append(nodes, n)
		}
	}
	capSum := map[string]int64{}
	for _, n := range nodes {
		for d, v := range t.capacity(n) {
			capSum[d] += v
		}
	}
	amount := func(total int64) int64 {
		if total <= 0 {
			return 1 + g.I64n(3)
		}
		switch g.Intn(8) {
		case 0:
			return total // exact fit
		case 1:
			return total + 1 + g.I64n(total/4+1) // too much
		case 2, 3:
			return 1 + g.I64n(total/4+1)
		}
		return 1 + g.I64n(total)
	}
	op.Bind = hint == nil || g.Bool(0.4)
	if op.Bind {
		total := int(capSum[nvCPU] / 1000)
		if total < 1 {
			total = 1
		}
		var n int
		switch g.Intn(10) {
		case 0:
			n = 1
		case 1:
			n = t.T
		case 2, 3:
			n = t.T * g.Range(1, (total+t.T-1)/t.T)
		case 4:
			n = total
		case 5:
			n = total + 1
		case 6, 7:
			n = g.Range(1, total)
		default:
			n = g.Range(1, min(total, 8))
		}
		op.Req[nvCPU] = int64(n) * 1000
		op.Pol = g.Pick("FullPCPUs", "FullPCPUs", "FullPCPUs", "FullPCPUs", "SpreadByPCPUs", "SpreadByPCPUs", "SpreadByPCPUs", "SpreadByPCPUs", "Default", "")
		op.Reqd = (op.Pol == "FullPCPUs" || op.Pol == "SpreadByPCPUs") && g.Bool(0.45)
		op.Excl = g.Pick("", "", "None", "PCPULevel", "PCPULevel", "NUMANodeLevel", "NUMANodeLevel")
	} else {
		op.Req[nvCPU] = amount(capSum[nvCPU])
		if g.Bool(0.3) {
			op.Req[nvCPU] = (op.Req[nvCPU]/1000 + 1) * 1000
		}
	}
	if t.NPol != "" && g.Bool(0.6) {
		// a node with a node-level CPU bind policy: pods of the other QoS classes, mostly with whole-number CPU requests
		// (often a multiple of the threads per core); some carry a resource spec although nothing reads it for their class
		op.QoS, op.Bind, op.Reqd = nvGenOtherQoS(g), false, false
		if !g.Bool(0.12) {
			total := max(1, int(capSum[nvCPU]/1000))
			n := g.Range(1, min(total, 8))
			switch g.Intn(6) {
			case 0, 1, 2:
				n = t.T * g.Range(1, max(1, min(total, 8)/t.T))
			case 3:
				n = g.Range(1, total)
			}
			op.Req[nvCPU] = int64(n) * 1000
		} else if op.Req[nvCPU]%1000 == 0 {
			op.Req[nvCPU] += 1 + g.I64n(999)
		}
		if !g.Bool(0.15) {
			op.Pol, op.Excl = "", ""
		} else {
			op.Pol = g.Pick("", "FullPCPUs", "SpreadByPCPUs")
			op.Excl = g.Pick("", "PCPULevel", "NUMANodeLevel")
		}
	} else if t.NPol == "" && !op.Bind && g.Bool(0.05) {
		op.QoS = nvGenOtherQoS(g) // the class makes no difference on a node without a policy
	} else if op.Bind && g.Bool(0.1) {
		op.QoS = "LSE"
	}
	if hint != nil || g.Bool(0.3) {
		if g.Bool(0.8) {
			op.Req[nvMem] = amount(capSum[nvMem])
		}
		if t.Ext != nil && g.Bool(0.5) {
			op.Req[nvExt] = amount(capSum[nvExt])
		}
		if g.Bool(0.06) {
			op.Req[nvUntracked] = 1 + g.I64n(4)
		}
	}
	return op
}

func nvGenPre(g *sim.Rng, t *nvTopo, names func() string) []nvPre {
	var out []nvPre
	cnt, used := map[int]int{}, map[int]map[string]int64{}
	k := g.Intn(5)
	for i := 0; i < k; i++ {
		pre := nvPre{P: names(), Excl: g.Pick("", "", "PCPULevel", "NUMANodeLevel")}
		mode := g.Intn(3) // 0 cpuset only, 1 NUMA amounts only, 2 both
		if mode != 1 {
			want := g.Range(1, min(6, t.numCPUs()))
			perNode := map[int]int{}
			for _, c := range g.Perm(t.numCPUs()) {
				if len(pre.CPUs) >= want {
					break
				}
				if t.reserved(c) || cnt[c] >= t.Max {
					continue
				}
				if cnt[c] > 0 && g.Bool(0.5) {
					continue
				}
				pre.CPUs = append(pre.CPUs, c)
				p, _ := t.pos(c)
				perNode[p.node]++
			}
			sort.Ints(pre.CPUs)
			if mode == 2 {
				for _, n := range nvSortedInts(perNode) {
					pre.NUMA = append(pre.NUMA, nvAmt{N: n, R: map[string]int64{nvCPU: int64(perNode[n]) * 1000}})
				}
			}
		} else {
			for n := 0; n < t.numNodes(); n++ {
				if !g.Bool(0.5) {
					continue
				}
				r := map[string]int64{}
				for d, c := range t.capacity(n) {
					left := c - used[n][d]
					if left > 0 && g.Bool(0.7) {
						r[d] = 1 + g.I64n(left)
					}
				}
				if len(r) > 0 {
					pre.NUMA = append(pre.NUMA, nvAmt{N: n, R: r})
				}
			}
		}
		// pods of other QoS classes that hold a CPU set: bound by an earlier scheduler under a node-level CPU bind policy
		// (on a node that has none now: the label was taken off since)
		if pq := 0.04; len(pre.CPUs) > 0 {
			if t.NPol != "" {
				pq = 0.6
			}
			if g.Bool(pq) {
				pre.QoS = nvGenOtherQoS(g)
			}
		}
		if nvPreAlloc(t, &pre, cnt, used) != nil {
			out = append(out, pre)
		}
	}
	return out
}

func (nvEngine) Generate(p *sim.Plan, g *sim.Rng) {
	cfg := nvCfg{Strategy: g.Pick("MostAllocated", "LeastAllocated")}
	thorough := p.Tier == "thorough"
	ext := p.Prop != "C19" // C06 only: 3-4 socket machines, reservations with owner pods, preemption dry runs
	nOps := g.Range(8, 40)
	if thorough {
		nOps = g.Range(8, 90)
	}
	var ops []nvOp
	nodes := map[string]*nvTopo{}
	nodeNames := []string{}
	var pods []string
	np := 0
	podName := func() string { np++; return fmt.Sprintf("p%d", np-1) }
	polRun := g.Bool(0.3) // this run has nodes with a node-level CPU bind policy
	addNode := func(name string) {
		t := nvGenTopo(g, thorough, ext)
		if polRun && g.Bool(0.8) {
			t.NPol = nvGenNodePolicy(g)
		}
		op := nvOp{K: "node_add", N: name, Topo: t}
		if g.Bool(0.5) {
			op.Pre = nvGenPre(g, t, podName)
			for _, pre := range op.Pre {
				pods = append(pods, pre.P)
			}
		}
		ops = append(ops, op)
		if nodes[name] == nil {
			nodeNames = append(nodeNames, name)
		}
		nodes[name] = t
	}
	liveNode := func() string {
		var c []string
		for _, n := range nodeNames {
			if nodes[n] != nil {
				c = append(c, n)
			}
		}
		if len(c) == 0 {
			return ""
		}
		return c[g.Intn(len(c))]
	}
	addNode("n0")
	if g.Bool(0.2) {
		addNode("n1")
	}
	numaHeavy := g.Bool(0.5) // this run leans towards NUMA-level requests
	schedOp := func(pod, node string, hint []int) nvOp {
		op := nvOp{K: "sched", P: pod, N: node, Hint: hint, Abandon: g.Bool(0.1), BindFails: g.Bool(0.15)}
		if op.BindFails {
			// how the binding cycle fails: first write refused / patch stored, Bind refused / both applied, acknowledgement lost
			op.BindFault = g.Pick("", "", "patched", "patched", "lost-ack", "lost-ack", "lost-ack")
		}
		return op
	}
	// reservations: name -> node they were sent to, and the CPUs they ask for
	type genResv struct {
		name, node string
		cpus       int
	}
	var resvs []genResv
	resvRun := ext && g.Bool(0.4)
	for len(ops) < nOps {
		if ext {
			y := g.Intn(100)
			switch {
			case resvRun && (y < 6 || (len(resvs) == 0 && y < 30)):
				// a reservation: its reserve pod asks for a CPU set and is scheduled like a pod
				n := liveNode()
				if n == "" || nodes[n].NPol != "" {
					break
				}
				t := nodes[n]
				k := g.Range(2, max(2, min(t.numCPUs(), 10)))
				op := nvOp{K: "pod_create", P: podName(), Resv: true, Bind: true, Req: map[string]int64{nvCPU: int64(k) * 1000},
					Pol: g.Pick("FullPCPUs", "FullPCPUs", "SpreadByPCPUs"), RPol: g.Pick("", "Aligned", "Aligned", "Restricted"), Excl: g.Pick("", "", "PCPULevel")}
				pods = append(pods, op.P)
				resvs = append(resvs, genResv{op.P, n, k})
				ops = append(ops, op, nvOp{K: "sched", P: op.P, N: n, BindFails: g.Bool(0.05)})
				continue
			case resvRun && len(resvs) > 0 && y < 30:
				// an owner pod of a reservation, scheduled onto the reservation's node
				rv := resvs[g.Intn(len(resvs))]
				t := nodes[rv.node]
				if t == nil || t.NPol != "" {
					break
				}
				var hint []int
				if g.Bool(0.15) {
					hint = nvGenHint(g, t)
				}
				op := nvGenSpec(g, t, hint)
				op.P, op.Owner, op.Bind, op.QoS = podName(), rv.name, true, ""
				if g.Bool(0.85) {
					op.Req[nvCPU] = int64(g.Range(1, max(1, rv.cpus-1))) * 1000
				} else {
					op.Req[nvCPU] = (op.Req[nvCPU]/1000 + 1) * 1000
				}
				if op.Pol == "" && g.Bool(0.7) {
					op.Pol = "FullPCPUs"
				}
				pods = append(pods, op.P)
				so := schedOp(op.P, rv.node, hint)
				so.Abandon = g.Bool(0.05)
				ops = append(ops, op, so)
				continue
			case y >= 94 && len(pods) > 0:
				// a preemption dry run: the node is evaluated with some pods removed
				n := liveNode()
				if n == "" || nodes[n].NPol != "" {
					break
				}
				t := nodes[n]
				var hint []int
				if g.Bool(0.3) {
					hint = nvGenHint(g, t)
				}
				op := nvGenSpec(g, t, hint)
				op.P = podName()
				if len(resvs) > 0 && g.Bool(0.4) {
					op.Owner = resvs[g.Intn(len(resvs))].name
				}
				pods = append(pods, op.P)
				so := schedOp(op.P, n, hint)
				for i, k := 0, g.Range(1, 3); i < k; i++ {
					so.Victims = append(so.Victims, pods[g.Intn(len(pods))])
				}
				ops = append(ops, op, so)
				continue
			}
		}
		x := g.Intn(100)
		switch {
		case x < 45:
			n := liveNode()
			if n == "" {
				addNode("n0")
				continue
			}
			t := nodes[n]
			var hint []int
			pn := 0.35
			if numaHeavy {
				pn = 0.75
			}
			if g.Bool(pn) {
				hint = nvGenHint(g, t)
			}
			op := nvGenSpec(g, t, hint)
			op.P = podName()
			pods = append(pods, op.P)
			ops = append(ops, op)
			if g.Bool(0.9) {
				ops = append(ops, schedOp(op.P, n, hint))
			}
		case x < 57:
			// another attempt for some pod (only runs if the pod is still waiting), possibly with another hint
			if len(pods) == 0 {
				continue
			}
			n := liveNode()
			if n == "" {
				continue
			}
			var hint []int
			if g.Bool(0.6) {
				hint = nvGenHint(g, nodes[n])
			}
			ops = append(ops, schedOp(pods[g.Intn(len(pods))], n, hint))
		case x < 72:
			if len(pods) == 0 {
				continue
			}
			ops = append(ops, nvOp{K: "pod_delete", P: pods[g.Intn(len(pods))]})
		case x < 80:
			if len(pods) == 0 {
				continue
			}
			ops = append(ops, nvOp{K: "pod_term", P: pods[g.Intn(len(pods))]})
		case x < 88:
			if len(pods) == 0 {
				continue
			}
			ops = append(ops, nvOp{K: "resync", P: pods[g.Intn(len(pods))]})
		case x < 92:
			n := liveNode()
			if n == "" {
				continue
			}
			t := nodes[n]
			op := nvOp{K: "take", N: n, CPUs: g.Range(1, max(1, min(t.numCPUs(), 12))), Pol: g.Pick("FullPCPUs", "SpreadByPCPUs", "Default", ""),
				Excl: g.Pick("", "None", "PCPULevel", "NUMANodeLevel")}
			for _, c := range g.Perm(t.numCPUs()) {
				if len(op.Pref) >= g.Range(1, 6) {
					break
				}
				op.Pref = append(op.Pref, c)
			}
			sort.Ints(op.Pref)
			ops = append(ops, op)
		case x < 96:
			n := liveNode()
			if n == "" {
				continue
			}
			ops = append(ops, nvOp{K: "node_del", N: n})
			nodes[n] = nil
		default:
			name := fmt.Sprintf("n%d", g.Intn(3))
			if nodes[name] != nil {
				continue
			}
			addNode(name)
		}
	}
	if p.Prop == "C19" {
		// drawn last, so that the workload of a seed does not depend on it
		cfg.Order = g.Pick("topology-first", "topology-first", "topology-first", "any")
	}
	p.SetCfg(cfg)
	p.SetOps(ops)
}

// ================================================================ C19: allocation state survives a restart
//
// Under property C19 the same histories run with the REAL Plugin.PreBind persisting the allocation at bind (the PreBind
// patch and the Bind call are two API writes, see bindResult), and
// after EVERY successful bind (and once more at the end of the history) the run forks: fresh plugin caches
// (topologyManager, resourceManager, pod event handler, NodeResourceTopology event handler) are built and fed ONLY
// the objects that exist in the API store, as the start-up delivery of a restarted scheduler: every object as an
// Add in a seeded order, duplicate adds, Update(obj,obj) and an update carrying the same allocation. Oracles:
//   (a) codec: Get(Set(x)) == x for every allocation the allocator produced; what PreBind stored reads back to the allocation;
//   (b) the rebuilt NodeAllocation equals the sum over the bound pods of the store (model) and the live ledger restricted to them;
//   (c) nothing taken before the restart is offered after it (free CPU set, a probe allocation of everything that is left).
// The forks replay the FINAL objects as Adds. The instance that learns the allocations from the event stream instead
// (add of the pending pod, PreBind-patch update, Bind update) is the follower, compared with the store whenever it is
// drained (oracle follower-vs-persisted) and, at the end of the history, with oracle (c) as well. At the last crash
// point every bound pod of the store must also be known to the live ledger (rebuilt-vs-live/bound-pod-not-in-live-ledger):
// a pod un-reserved after a lost bind acknowledgement has to be learned back from the informer's bound update.
// Start-up order: cmd/koord-scheduler/app/server.go starts the pod/node informer factory, then the koordinator and
// the NodeResourceTopology factories, all asynchronously; frameworkexthelper.ForceSyncFromInformer only registers the
// handler. So "topology before pods" is a convention, not a guarantee: both classes are generated (cfg.order) and
// the class of every fork is part of the violation signature; forks in which a bound pod was handled before the
// NodeResourceTopology of its node carry the history tag nvTagStartup.

const (
	nvTagStartup = "pod-add-before-topology-at-startup"
	nvTagStacked = "cpu-stacked-with-different-exclusive-policies"
	// history class of the finding recorded for C19: PreBind persisted an allocation for a pod that is not LSE/LSR
	// (prod) but carries a preferred CPU exclusive policy in its resource spec. PreFilter reads the exclusive policy
	// only for LSE/LSR pods, so Reserve allocates and records the pod without one, while the pod event handler reads
	// it from the annotation for every pod: the restarted scheduler (and the live one, from the pod's next update
	// event on) records the pod's CPUs as exclusive.
	nvTagExclOther = "exclusive-policy-in-the-resource-spec-of-a-pod-that-is-not-lse-lsr"
	// history class of the finding recorded for C19: a binding attempt stored its PreBind patch (resource-status) on the
	// pod and the Bind call was refused; a later cycle in which the plugin allocates nothing for the pod (another node:
	// no CPU set due there, no NUMA hint) binds it. PreBind returns early without an allocation and leaves the
	// annotation of the failed attempt on the object.
	nvTagFailedAttempt = "bound-by-a-cycle-that-allocates-nothing-while-carrying-the-resource-status-of-a-failed-attempt"
)

// ---- framework stubs for the real Plugin.PreBind

type nvSnapshot struct{ s *nvSim }

func (f *nvSnapshot) NodeInfos() fwktype.NodeInfoLister       { return f }
func (f *nvSnapshot) StorageInfos() fwktype.StorageInfoLister { return f }
func (f *nvSnapshot) IsPVCUsedByPods(key string) bool         { return false }
func (f *nvSnapshot) List() ([]fwktype.NodeInfo, error) {
	var out []fwktype.NodeInfo
	names := make([]string, 0, len(f.s.nodes))
	for n := range f.s.nodes {
		names = append(names, n)
	}
	sort.Strings(names)
	for _, n := range names {
		ni, _ := f.Get(n)
		out = append(out, ni)
	}
	return out, nil
}
func (f *nvSnapshot) HavePodsWithAffinityList() ([]fwktype.NodeInfo, error) { return nil, nil }
func (f *nvSnapshot) HavePodsWithRequiredAntiAffinityList() ([]fwktype.NodeInfo, error) {
	return nil, nil
}
func (f *nvSnapshot) Get(nodeName string) (fwktype.NodeInfo, error) {
	nd := f.s.nodes[nodeName]
	if nd == nil {
		return nil, fmt.Errorf("unable to find node: %s", nodeName)
	}
	ni := framework.NewNodeInfo()
	ni.SetNode(nd.obj)
	return ni, nil
}

// nvHandle is the part of the framework handle preBindObject touches; any other method panics (nil embedded
// interface) and is reported as harness trouble.
type nvHandle struct {
	frameworkext.ExtendedHandle
	snapshot *nvSnapshot
}

func (h *nvHandle) SnapshotSharedLister() fwktype.SharedLister { return h.snapshot }

// preBind runs the real Plugin.PreBind for a committed cycle on a copy of the pod, with the cycle state PreFilter and
// Reserve leave behind, and returns the annotations it wrote.
func (s *nvSim) preBind(c *nvCycle, cur *nvPodVer) (map[string]string, bool) {
	sp := c.pod.spec
	cs := c.cs // a cycle that ran through the plugin glue carries its own cycle state
	if cs == nil {
		reqs := nvToRL(sp.Req)
		st := &preFilterState{
			requestCPUBind: sp.Bind,
			requests:       reqs,
			numCPUsNeeded:  int(sp.Req[nvCPU] / 1000),
			allocation:     c.real,
		}
		if sp.Bind {
			st.preferredCPUBindPolicy = schedulingconfig.CPUBindPolicy(sp.Pol)
			if sp.Reqd {
				st.requiredCPUBindPolicy = schedulingconfig.CPUBindPolicy(sp.Pol)
			}
			st.preferredCPUExclusivePolicy = schedulingconfig.CPUExclusivePolicy(sp.Excl)
		}
		cs = framework.NewCycleState()
		cs.Write(stateKey, st)
	} else {
		s.r.Probe("c19:prebind-on-the-cycle-state-of-the-plugin-glue")
	}
	obj := cur.obj.DeepCopy()
	if c.none {
		// history class of the finding recorded for C19 (nvTagFailedAttempt): the pod is about to be bound by a cycle that
		// allocates nothing while its API object carries the resource-status of an earlier, failed binding attempt
		s.r.Tag(nvTagFailedAttempt)
	}
	if status := s.pl.PreBind(context.TODO(), cs, obj, c.node); !status.IsSuccess() {
		s.r.Event("prebind %s on %s failed: %s", c.pod.name, c.node, status.Message())
		return nil, true
	}
	if c.none {
		// (a) what the object carries when it is bound reads back to the allocation of the cycle that binds it: nothing
		s.r.OracleEval()
		s.r.Probe("failed-attempt:prebind-of-a-cycle-that-allocates-nothing")
		back, err := apiext.GetResourceStatus(obj.Annotations)
		if err != nil || back.CPUSet != "" || len(back.NUMANodeResources) > 0 {
			s.r.Fail("persisted-vs-allocation", "resource-status-of-a-failed-attempt-bound-by-a-cycle-that-allocates-nothing",
				"pod %s is bound to %s by a cycle in which the plugin allocated nothing (Reserve recorded nothing), but after PreBind its object still carries the resource-status of an earlier binding attempt (PreBind patch stored, Bind refused): %q (err %v) - every reader of the annotation (the pod event handler of this and of a restarted scheduler, the koordlet) takes %s on %s for allocated to it",
				c.pod.name, c.node, obj.Annotations[apiext.AnnotationResourceStatus], err, cur.alloc, c.node)
		}
		out := map[string]string{}
		for k, v := range obj.Annotations {
			out[k] = v
		}
		return out, false
	}
	s.r.Probe("c19:prebind-persisted")
	// (a) what was persisted reads back to exactly the allocation Reserve recorded in the live ledger
	s.r.OracleEval()
	back, err := apiext.GetResourceStatus(obj.Annotations)
	if err != nil {
		s.r.Fail("persisted-vs-allocation", "undecodable", "pod %s: the resource-status annotation PreBind wrote cannot be decoded: %v (%q)", c.pod.name, err, obj.Annotations[apiext.AnnotationResourceStatus])
	}
	if d := nvStatusDiff(nvStatusOf(c.real), back); d != "" {
		s.r.Fail("persisted-vs-allocation", d, "pod %s on %s: allocation %s, PreBind persisted %q", c.pod.name, c.node, c.alloc, obj.Annotations[apiext.AnnotationResourceStatus])
	}
	cpus, err := cpuset.Parse(back.CPUSet)
	if err != nil || !cpus.Equals(c.real.CPUSet) {
		s.r.Fail("persisted-vs-allocation", "cpuset-string", "pod %s on %s: allocated CPUs %v, persisted cpuset %q parses to %v (err %v)", c.pod.name, c.node, c.alloc.cpus, back.CPUSet, cpus.ToSlice(), err)
	}
	spec, err := apiext.GetResourceSpec(obj.Annotations)
	if c.cs != nil && !sp.Bind && sp.Excl != "" {
		// history class of the recorded finding (see nvTagExclOther): the difference is remembered and reported at the
		// last crash point, so that the rest of the run is still explored
		s.r.Tag(nvTagExclOther)
		s.r.Probe("c19:prebind-for-a-pod-that-is-not-lse-lsr-with-an-exclusive-policy-in-its-spec")
		s.exclOther[c.pod.uid] = true
		if err == nil && string(spec.PreferredCPUExclusivePolicy) != string(c.real.CPUExclusivePolicy) {
			if s.exclDiff == "" {
				s.exclDiff = fmt.Sprintf("pod %s (QoS %q, not LSE/LSR) on %s: Reserve recorded the allocation %s with exclusive policy %q, the persisted resource spec says %q: the pod event handler records these CPUs as exclusive",
					c.pod.name, sp.QoS, c.node, c.alloc, c.real.CPUExclusivePolicy, spec.PreferredCPUExclusivePolicy)
			}
			spec.PreferredCPUExclusivePolicy = apiext.CPUExclusivePolicy(c.real.CPUExclusivePolicy)
		}
	}
	if err != nil || string(spec.PreferredCPUExclusivePolicy) != string(c.real.CPUExclusivePolicy) {
		s.r.Fail("persisted-vs-allocation", "exclusive-policy", "pod %s on %s: allocation recorded with exclusive policy %q, the persisted resource spec says %q (err %v)", c.pod.name, c.node, c.real.CPUExclusivePolicy, spec.PreferredCPUExclusivePolicy, err)
	}
	out := map[string]string{}
	for k, v := range obj.Annotations {
		out[k] = v
	}
	return out, false
}

// nvStatusOf is the value handed to the codec for an allocation (the way preBindObject builds it).
func nvStatusOf(pa *PodAllocation) *apiext.ResourceStatus {
	st := &apiext.ResourceStatus{CPUSet: pa.CPUSet.String()}
	for _, nr := range pa.NUMANodeResources {
		st.NUMANodeResources = append(st.NUMANodeResources, apiext.NUMANodeResource{Node: int32(nr.Node), Resources: nr.Resources})
	}
	return st
}

// nvStatusDiff compares two resource statuses exactly (same CPU set string, same NUMA entries in the same order,
// same resource names, equal quantities - an explicit zero is not the same as an absent amount); "" = equal.
func nvStatusDiff(want, got *apiext.ResourceStatus) string {
	if want.CPUSet != got.CPUSet {
		return "cpuset"
	}
	if len(want.NUMANodeResources) != len(got.NUMANodeResources) {
		return "numa-entries"
	}
	for i := range want.NUMANodeResources {
		w, g := want.NUMANodeResources[i], got.NUMANodeResources[i]
		if w.Node != g.Node {
			return "numa-node-id"
		}
		if len(w.Resources) != len(g.Resources) {
			return "numa-resource-names"
		}
		for k, q := range w.Resources {
			gq, ok := g.Resources[k]
			if !ok {
				return "numa-resource-names"
			}
			if q.Cmp(gq) != 0 {
				return "numa-amount"
			}
		}
	}
	return ""
}

// codecRoundTrip: Get(Set(x)) == x for an allocation the allocator produced, and for the same value padded with
// explicit zero amounts.
func (s *nvSim) codecRoundTrip(pa *PodAllocation, desc string) {
	try := func(st *apiext.ResourceStatus, variant string) {
		s.r.OracleEval()
		holder := &corev1.Pod{}
		if err := apiext.SetResourceStatus(holder, st); err != nil {
			s.r.Fail("codec", "set-error/"+variant, "SetResourceStatus(%+v): %v; %s", st, err, desc)
		}
		back, err := apiext.GetResourceStatus(holder.Annotations)
		if err != nil {
			s.r.Fail("codec", "undecodable/"+variant, "GetResourceStatus(%q): %v; %s", holder.Annotations[apiext.AnnotationResourceStatus], err, desc)
		}
		if d := nvStatusDiff(st, back); d != "" {
			s.r.Fail("codec", d+"/"+variant, "wrote %+v, read back %+v (%q); %s", st, back, holder.Annotations[apiext.AnnotationResourceStatus], desc)
		}
		cpus, err := cpuset.Parse(back.CPUSet)
		if err != nil || !cpus.Equals(pa.CPUSet) {
			s.r.Fail("codec", "cpuset-string/"+variant, "CPUs %v were written as %q which parses to %v (err %v); %s", pa.CPUSet.ToSlice(), back.CPUSet, cpus.ToSlice(), err, desc)
		}
	}
	st := nvStatusOf(pa)
	try(st, "as-allocated")
	if strings.Contains(st.CPUSet, "-") {
		s.r.Probe("c19:codec-cpuset-with-range")
	}
	if strings.Contains(st.CPUSet, ",") {
		s.r.Probe("c19:codec-cpuset-with-several-parts")
	}
	if len(st.NUMANodeResources) > 1 {
		s.r.Probe("c19:codec-several-numa-nodes")
	}
	if st.CPUSet == "" {
		s.r.Probe("c19:codec-empty-cpuset")
	}
	// the same allocation written with explicit zero amounts
	padded := nvZeroPadded(st)
	try(padded, "zero-padded")
}

// nvZeroPadded returns a copy of the status with an explicit zero amount added to every NUMA entry and one more
// entry that holds nothing but zeros: the same allocation, spelled differently.
func nvZeroPadded(st *apiext.ResourceStatus) *apiext.ResourceStatus {
	out := &apiext.ResourceStatus{CPUSet: st.CPUSet}
	maxNode := int32(-1)
	for _, nr := range st.NUMANodeResources {
		rl := nr.Resources.DeepCopy()
		if rl == nil {
			rl = corev1.ResourceList{}
		}
		if _, ok := rl[nvExt]; !ok {
			rl[nvExt] = *resource.NewQuantity(0, resource.DecimalSI)
		}
		out.NUMANodeResources = append(out.NUMANodeResources, apiext.NUMANodeResource{Node: nr.Node, Resources: rl})
		if nr.Node > maxNode {
			maxNode = nr.Node
		}
	}
	if maxNode < 0 {
		out.NUMANodeResources = append(out.NUMANodeResources, apiext.NUMANodeResource{Node: 0, Resources: corev1.ResourceList{
			corev1.ResourceCPU: *resource.NewMilliQuantity(0, resource.DecimalSI), corev1.ResourceMemory: *resource.NewQuantity(0, resource.BinarySI)}})
	}
	return out
}

// nrtObj builds the NodeResourceTopology object the koordlet reports for the node (CPU topology and reserved CPUs in
// annotations, one zone per NUMA node): the real event handler + NewTopologyOptions turn it into TopologyOptions.
func (s *nvSim) nrtObj(nd *nvNode) *nrtv1alpha1.NodeResourceTopology {
	if nd.nrt != nil {
		return nd.nrt
	}
	t := nd.topo
	topo := &apiext.CPUTopology{}
	perNode := map[int]int{}
	for c := 0; c < t.numCPUs(); c++ {
		p, _ := t.pos(c)
		topo.Detail = append(topo.Detail, apiext.CPUInfo{ID: int32(c), Core: int32(p.core - p.socket*t.NPS*t.C), Socket: int32(p.socket), Node: int32(p.node)})
		perNode[p.node]++
	}
	tb, err := json.Marshal(topo)
	if err != nil {
		s.r.HarnessFail("marshal CPU topology: %v", err)
	}
	ann := map[string]string{apiext.AnnotationNodeCPUTopology: string(tb)}
	if len(t.Res) > 0 {
		rb, err := json.Marshal(&apiext.NodeReservation{ReservedCPUs: cpuset.NewCPUSet(t.Res...).String()})
		if err != nil {
			s.r.HarnessFail("marshal node reservation: %v", err)
		}
		ann[apiext.AnnotationNodeReservation] = string(rb)
	}
	if t.NPol == nvKubeletFullPCPUs {
		kb, err := json.Marshal(nvKubeletPolicy())
		if err != nil {
			s.r.HarnessFail("marshal kubelet CPU manager policy: %v", err)
		}
		ann[apiext.AnnotationKubeletCPUManagerPolicy] = string(kb)
	}
	nrt := &nrtv1alpha1.NodeResourceTopology{ObjectMeta: metav1.ObjectMeta{Name: nd.name, Annotations: ann, ResourceVersion: "1"}}
	for n := 0; n < t.numNodes(); n++ {
		zone := nrtv1alpha1.Zone{Name: fmt.Sprintf("node-%d", n), Type: "Node"}
		capn := t.capacity(n)
		for _, d := range nvSortedKeys(capn) {
			v := capn[d]
			if d == nvCPU {
				v = int64(perNode[n]) * 1000 // the zone reports every CPU; NewTopologyOptions takes the reserved ones off
			}
			q := nvQuantity(d, v)
			zone.Resources = append(zone.Resources, nrtv1alpha1.ResourceInfo{Name: d, Capacity: q, Allocatable: q, Available: q})
		}
		nrt.Zones = append(nrt.Zones, zone)
	}
	nd.nrt = nrt
	return nrt
}

// nvCheckOptions: harness self-check - the TopologyOptions the real NodeResourceTopology handler derived from nrtObj
// must be the ones the live run installed directly (t.options()), otherwise live and rebuilt are not comparable.
func (s *nvSim) nvCheckOptions(node string, t *nvTopo, got TopologyOptions) {
	want := t.options()
	bad := ""
	switch {
	case got.CPUTopology == nil || !got.CPUTopology.IsValid():
		bad = "no valid CPU topology"
	case got.CPUTopology.NumCPUs != want.CPUTopology.NumCPUs || got.CPUTopology.NumCores != want.CPUTopology.NumCores ||
		got.CPUTopology.NumNodes != want.CPUTopology.NumNodes || got.CPUTopology.NumSockets != want.CPUTopology.NumSockets:
		bad = "topology counts"
	case len(got.CPUTopology.CPUDetails) != len(want.CPUTopology.CPUDetails):
		bad = "cpu details size"
	case !got.ReservedCPUs.Equals(want.ReservedCPUs):
		bad = "reserved CPUs"
	case got.MaxRefCount != want.MaxRefCount:
		bad = "MaxRefCount"
	case apiext.GetNodeCPUBindPolicy(nil, got.Policy) != apiext.GetNodeCPUBindPolicy(nil, want.Policy):
		bad = "kubelet CPU manager policy"
	case len(got.NUMANodeResources) != len(want.NUMANodeResources):
		bad = "NUMA node resources size"
	}
	if bad == "" {
		for c, info := range want.CPUTopology.CPUDetails {
			if got.CPUTopology.CPUDetails[c] != info {
				bad = fmt.Sprintf("cpu %d details", c)
			}
		}
		for i := range want.NUMANodeResources {
			w, g := want.NUMANodeResources[i], got.NUMANodeResources[i]
			if w.Node != g.Node || len(w.Resources) != len(g.Resources) {
				bad = fmt.Sprintf("NUMA node %d resources", w.Node)
				continue
			}
			for k, q := range w.Resources {
				if gq, ok := g.Resources[k]; !ok || q.Cmp(gq) != 0 {
					bad = fmt.Sprintf("NUMA node %d %s", w.Node, k)
				}
			}
		}
	}
	if bad != "" {
		s.r.HarnessFail("node %s: TopologyOptions derived from the NodeResourceTopology object differ from the installed ones (%s): got %+v want %+v", node, bad, got, want)
	}
}

// ---- the ledger a set of holders implies (from the statement: sums over the pods)

type nvHolder struct {
	name  string
	alloc *nvAlloc
}

type nvLedger struct {
	pods   map[string]nvHolder
	cnt    map[int]int
	used   map[int]map[string]int64
	shared map[int]map[string]bool // NUMA node -> pods whose CPU set spans several NUMA nodes
	single map[int]map[string]bool // NUMA node -> pods whose CPU set lies in this NUMA node only
}

func nvDerive(t *nvTopo, pods map[string]nvHolder) *nvLedger {
	l := &nvLedger{pods: pods, cnt: map[int]int{}, used: map[int]map[string]int64{}, shared: map[int]map[string]bool{}, single: map[int]map[string]bool{}}
	for uid, h := range pods {
		on := map[int]bool{}
		for _, c := range h.alloc.cpus {
			l.cnt[c]++
			if p, ok := t.pos(c); ok {
				on[p.node] = true
			}
		}
		dst := l.single
		if len(on) > 1 {
			dst = l.shared
		}
		for n := range on {
			if dst[n] == nil {
				dst[n] = map[string]bool{}
			}
			dst[n][uid] = true
		}
		for n, m := range h.alloc.numa {
			for d, v := range m {
				if v == 0 {
					continue
				}
				if l.used[n] == nil {
					l.used[n] = map[string]int64{}
				}
				l.used[n][d] += v
			}
		}
	}
	return l
}

// nvNumaDiff compares per-NUMA amounts by value (an absent amount is a zero amount); "" = equal.
func nvNumaDiff(a, b map[int]map[string]int64) string {
	for _, pair := range [2][2]map[int]map[string]int64{{a, b}, {b, a}} {
		for _, n := range nvSortedInts(pair[0]) {
			for _, d := range nvSortedKeys(pair[0][n]) {
				if pair[0][n][d] != pair[1][n][d] {
					return fmt.Sprintf("NUMA %d %s: %d vs %d", n, d, a[n][d], b[n][d])
				}
			}
		}
	}
	return ""
}

// nvExclNorm: "" and "None" both mean "not exclusive".
func nvExclNorm(p string) string {
	if p == string(schedulingconfig.CPUExclusivePolicyNone) {
		return ""
	}
	return p
}

func nvIntsEq(a, b []int) bool {
	if len(a) != len(b) {
		return false
	}
	for i := range a {
		if a[i] != b[i] {
			return false
		}
	}
	return true
}

func nvSortedSet(m map[string]bool) []string {
	out := make([]string, 0, len(m))
	for k := range m {
		out = append(out, k)
	}
	sort.Strings(out)
	return out
}

func nvSortedHolders(m map[string]nvHolder) []string {
	out := make([]string, 0, len(m))
	for k := range m {
		out = append(out, k)
	}
	sort.Strings(out)
	return out
}

// compareLedger: the NodeAllocation `na` (nil = no entry = empty) must be exactly the ledger the holders imply.
// exclRelaxed: pods (uid) whose exclusive policy is not compared (the live record of a pod of the history class
// nvTagExclOther carries no exclusive policy until the pod's next update event; nil for the comparison with the store).
//
// released != nil: the ledger under comparison has also seen releases (the follower). A CPU keeps the exclusive policy of
// the pod added last and a release never rewrites it: "" and "None" are one policy there, and on the CPUs of `released`
// (pods with different exclusive policies were stacked on them: the history class of the recorded finding nvTagStacked)
// the per-CPU policy is not compared. A rebuilt ledger (adds only) is compared exactly.
func (s *nvSim) compareLedger(oracle, class, what, node string, na *NodeAllocation, want *nvLedger, t *nvTopo, exclRelaxed map[string]bool, released map[int]bool) {
	r := s.r
	r.OracleEval()
	var pods map[types.UID]PodAllocation
	var cpus CPUDetails
	var res map[int]*NUMANodeResource
	if na != nil {
		pods, cpus, res = na.allocatedPods, na.allocatedCPUs, na.allocatedResources
	}
	fail := func(detail, format string, args ...any) {
		r.Fail(oracle, detail+"/"+class, "%s: node %s: %s", what, node, fmt.Sprintf(format, args...))
	}
	// pods
	for _, uid := range nvSortedHolders(want.pods) {
		h := want.pods[uid]
		pa, ok := pods[types.UID(uid)]
		if !ok {
			fail("pod-lost", "pod %s (%s) holds %s but this ledger does not know it", h.name, uid, h.alloc)
		}
		g := nvFromReal(&pa)
		if !nvIntsEq(g.cpus, h.alloc.cpus) {
			fail("pod-cpuset", "pod %s holds CPUs %v, recorded as %v", h.name, h.alloc.cpus, g.cpus)
		}
		if d := nvNumaDiff(h.alloc.numa, g.numa); d != "" {
			fail("pod-numa-amount", "pod %s holds %s, recorded as %s (%s)", h.name, h.alloc, g, d)
		}
		if g.excl != h.alloc.excl && exclRelaxed[uid] {
			r.Probe("c19:exclusive-policy-of-a-pod-that-is-not-lse-lsr-differs(live vs rebuilt)")
			if s.exclDiff == "" {
				s.exclDiff = fmt.Sprintf("%s: node %s: pod %s is recorded with exclusive policy %q, recorded with %q", what, node, h.name, h.alloc.excl, g.excl)
			}
		} else if g.excl != h.alloc.excl {
			fail("pod-exclusive-policy", "pod %s was allocated with exclusive policy %q, recorded with %q", h.name, h.alloc.excl, g.excl)
		}
		if pa.Name != h.name || pa.Namespace != "default" {
			fail("pod-identity", "pod %s recorded as %s/%s", h.name, pa.Namespace, pa.Name)
		}
	}
	var ghosts []string
	for uid := range pods {
		if _, ok := want.pods[string(uid)]; !ok {
			ghosts = append(ghosts, string(uid))
		}
	}
	sort.Strings(ghosts)
	if len(ghosts) > 0 {
		pa := pods[types.UID(ghosts[0])]
		fail("pod-ghost", "this ledger holds %s (%s) which is not a bound live pod with an allocation", ghosts[0], nvFromReal(&pa))
	}
	// CPUs with reference counts
	for _, c := range nvSortedInts(want.cnt) {
		if cpus[c].RefCount != want.cnt[c] {
			fail("cpu-refcount", "CPU %d is held by %d pods, recorded reference count %d", c, want.cnt[c], cpus[c].RefCount)
		}
	}
	for _, c := range nvSortedInts(cpus) {
		info := cpus[c]
		if info.RefCount != want.cnt[c] {
			fail("cpu-refcount", "CPU %d is held by %d pods, recorded reference count %d", c, want.cnt[c], info.RefCount)
		}
		p, ok := t.pos(c)
		if !ok || info.CPUID != c || info.NodeID != p.node || info.SocketID != p.socket {
			fail("cpu-info", "CPU %d recorded as %+v, the topology puts it on socket %d NUMA node %d", c, info, p.socket, p.node)
		}
		okPol := false
		for huid, h := range want.pods {
			for _, hc := range h.alloc.cpus {
				if hc == c && (h.alloc.excl == string(info.ExclusivePolicy) || exclRelaxed[huid]) {
					okPol = true
				}
				if hc == c && released != nil && nvExclNorm(h.alloc.excl) == nvExclNorm(string(info.ExclusivePolicy)) {
					okPol = true
				}
			}
		}
		if released[c] {
			r.Probe("follower:exclusive-policy-of-stacked-cpu-not-compared")
			okPol = true
		}
		if !okPol {
			fail("cpu-exclusive-policy", "CPU %d recorded with exclusive policy %q which none of its holders has", c, info.ExclusivePolicy)
		}
	}
	// per-NUMA amounts
	have := map[int]map[string]int64{}
	for n, nr := range res {
		for d, q := range nr.Resources {
			if v := nvVal(string(d), q); v != 0 {
				if have[n] == nil {
					have[n] = map[string]int64{}
				}
				have[n][string(d)] = v
			}
		}
	}
	if d := nvNumaDiff(want.used, have); d != "" {
		fail("numa-amount", "sum over the pods vs this ledger: %s", d)
	}
	// NUMA node status sets
	for _, pair := range []struct {
		name string
		want map[int]map[string]bool
	}{{"shared", want.shared}, {"single", want.single}} {
		got := map[int][]string{}
		if na != nil {
			src := na.sharedNode
			if pair.name == "single" {
				src = na.singleNUMANode
			}
			for n, set := range src {
				if set.Len() > 0 {
					got[n] = set.List()
				}
			}
		}
		ns := map[int]bool{}
		for n := range got {
			ns[n] = true
		}
		for n, m := range pair.want {
			if len(m) > 0 {
				ns[n] = true
			}
		}
		for _, n := range nvSortedInts(ns) {
			if w, g := strings.Join(nvSortedSet(pair.want[n]), ","), strings.Join(got[n], ","); w != g {
				fail("numa-status", "NUMA node %d %s-set: pods {%s} by their CPU sets, recorded {%s}", n, pair.name, w, g)
			}
		}
	}
}

func nvHasPod(na *NodeAllocation, uid string) bool {
	_, ok := na.allocatedPods[types.UID(uid)]
	return ok
}

func nvLedgerString(na *NodeAllocation) string {
	if na == nil {
		return "-"
	}
	var sb strings.Builder
	uids := make([]string, 0, len(na.allocatedPods))
	for uid := range na.allocatedPods {
		uids = append(uids, string(uid))
	}
	sort.Strings(uids)
	for _, uid := range uids {
		pa := na.allocatedPods[types.UID(uid)]
		fmt.Fprintf(&sb, "%s{%s %s} ", uid, nvFromReal(&pa), pa.CPUExclusivePolicy)
	}
	for _, c := range nvSortedInts(na.allocatedCPUs) {
		fmt.Fprintf(&sb, "%d:%d ", c, na.allocatedCPUs[c].RefCount)
	}
	for _, n := range nvSortedInts(na.allocatedResources) {
		m := map[string]int64{}
		for d, q := range na.allocatedResources[n].Resources {
			if v := nvVal(string(d), q); v != 0 {
				m[string(d)] = v
			}
		}
		if len(m) > 0 {
			fmt.Fprintf(&sb, "n%d{%s} ", n, nvFmt(m))
		}
	}
	return sb.String()
}

// ---- start-up delivery

type nvStartEv struct {
	typ  string // nrt | node | pod
	kind string // add | dup-add | resync | same-allocation-update | same-allocation-update-zero-padded
	node string
	pod  *nvPodVer
}

// nvShuffle: selection shuffle driven by the deliver tape (all zeros = the given order).
func nvShuffle[T any](r *sim.Run, xs []T) {
	for i := 0; i+1 < len(xs); i++ {
		j := i + r.Choose(len(xs)-i)
		xs[i], xs[j] = xs[j], xs[i]
	}
}

// nvInsertAfter inserts ev at a seeded position behind index `after` (never before the add of the same object).
func nvInsertAfter(r *sim.Run, q []nvStartEv, after int, ev nvStartEv) ([]nvStartEv, int) {
	pos := after + 1 + r.Choose(len(q)-after)
	q = append(q, nvStartEv{})
	copy(q[pos+1:], q[pos:])
	q[pos] = ev
	return q, pos
}

// nvTouched is a later version of the pod object that carries the same allocation (some unrelated field changed),
// optionally with the allocation spelled with explicit zero amounts.
func (s *nvSim) nvTouched(v *nvPodVer, zeroPad bool) *corev1.Pod {
	p := v.obj.DeepCopy()
	p.ResourceVersion = p.ResourceVersion + "1"
	p.Labels["touched"] = "1"
	if zeroPad && !v.alloc.empty() {
		// (a pod that carries no allocation has nothing to spell differently: padding it would CREATE an annotation)
		st, err := apiext.GetResourceStatus(p.Annotations)
		if err != nil {
			return p
		}
		if err := apiext.SetResourceStatus(p, nvZeroPadded(st)); err != nil {
			s.r.HarnessFail("SetResourceStatus: %v", err)
		}
	}
	return p
}

// fork is one crash point: the live ledger is summarised, fresh caches are built from the API store only, and the
// three oracles of C19 are evaluated.
func (s *nvSim) fork(trigger string, final bool) {
	r := s.r
	stackedDiff := ""
	s.forks++
	r.Probe("c19:fork")
	nodeNames := make([]string, 0, len(s.nodes))
	for n := range s.nodes {
		nodeNames = append(nodeNames, n)
	}
	sort.Strings(nodeNames)
	podNames := nvSortedPodNames(s.pods)

	// ---- what the API store says is allocated: bound, not terminated, with a persisted allocation (model, from the statement)
	expected := map[string]map[string]nvHolder{}
	isExpected := func(v *nvPodVer) bool {
		return v.node != "" && !v.term && !v.alloc.empty() && s.nodes[v.node] != nil
	}
	for _, n := range nodeNames {
		expected[n] = map[string]nvHolder{}
	}
	nBound := 0
	for _, pn := range podNames {
		v := s.pods[pn]
		switch {
		case isExpected(v):
			expected[v.node][v.uid] = nvHolder{name: v.name, alloc: v.alloc}
			nBound++
		case v.node != "" && v.term:
			r.Probe("c19:store-has-terminated-pod")
		case v.node == "":
			r.Probe("c19:store-has-unbound-pod")
		}
	}

	// ---- the live ledger at the crash point
	live := s.realNodes()
	for _, n := range nodeNames {
		r.Event("fork %d (%s) live %s %s", s.forks, trigger, n, nvLedgerString(live[n]))
	}

	// ---- fresh plugin caches
	tm2 := NewTopologyOptionsManager()
	rm2 := &resourceManager{numaAllocateStrategy: s.rm.numaAllocateStrategy, topologyOptionsManager: tm2, nodeAllocations: map[string]*NodeAllocation{}}
	h2 := &podEventHandler{resourceManager: rm2}
	th2 := &nodeResourceTopologyEventHandler{topologyManager: tm2}
	nodeH := cache.ResourceEventHandlerFuncs{DeleteFunc: rm2.onNodeDelete} // what NewResourceManager registers on the node informer
	for _, n := range nodeNames {
		// MaxRefCount is not part of the NodeResourceTopology: "other plugins customize it" (topology_eventhandler.go);
		// the stub of that other plugin configures the restarted scheduler like the old one
		max := s.nodes[n].topo.Max
		tm2.UpdateTopologyOptions(n, func(o *TopologyOptions) { o.MaxRefCount = max })
	}

	// ---- the start-up delivery: per informer one stream; every object as an Add, plus duplicates / resyncs / updates with the same allocation
	var nrtQ, nodeQ, podQ []nvStartEv
	for _, n := range nodeNames {
		nrtQ = append(nrtQ, nvStartEv{typ: "nrt", kind: "add", node: n})
		nodeQ = append(nodeQ, nvStartEv{typ: "node", kind: "add", node: n})
	}
	for _, pn := range podNames {
		podQ = append(podQ, nvStartEv{typ: "pod", kind: "add", pod: s.pods[pn]})
	}
	nvShuffle(r, nrtQ)
	nvShuffle(r, nodeQ)
	nvShuffle(r, podQ)
	for _, n := range nodeNames {
		at := -1
		for i, ev := range nrtQ {
			if ev.node == n && ev.kind == "add" {
				at = i
			}
		}
		if r.Flip(0.15) {
			nrtQ, at = nvInsertAfter(r, nrtQ, at, nvStartEv{typ: "nrt", kind: "dup-add", node: n})
		}
		if r.Flip(0.15) {
			nrtQ, _ = nvInsertAfter(r, nrtQ, at, nvStartEv{typ: "nrt", kind: "resync", node: n})
		}
	}
	for _, pn := range podNames {
		v := s.pods[pn]
		at := -1
		for i, ev := range podQ {
			if ev.pod == v && ev.kind == "add" {
				at = i
			}
		}
		if r.Flip(0.2) {
			podQ, at = nvInsertAfter(r, podQ, at, nvStartEv{typ: "pod", kind: "dup-add", pod: v})
		}
		if r.Flip(0.2) {
			podQ, at = nvInsertAfter(r, podQ, at, nvStartEv{typ: "pod", kind: "resync", pod: v})
		}
		if r.Flip(0.2) {
			kind := "same-allocation-update"
			if r.Flip(0.4) {
				kind = "same-allocation-update-zero-padded"
			}
			podQ, _ = nvInsertAfter(r, podQ, at, nvStartEv{typ: "pod", kind: kind, pod: v})
		}
	}

	topoSeen := map[string]bool{}
	podBeforeTopo := false
	deliver := func(ev nvStartEv) {
		switch ev.typ {
		case "nrt":
			obj := s.nrtObj(s.nodes[ev.node])
			if ev.kind == "resync" {
				th2.OnUpdate(obj, obj)
			} else {
				th2.OnAdd(obj, ev.kind == "add")
			}
			topoSeen[ev.node] = true
			r.Event("startup nrt %s %s", ev.kind, ev.node)
		case "node":
			nodeH.OnAdd(s.nodes[ev.node].obj, true)
			r.Event("startup node add %s", ev.node)
		case "pod":
			v := ev.pod
			if isExpected(v) && !topoSeen[v.node] {
				// history class of the finding recorded for C19: the restarted scheduler handles a bound pod before the
				// NodeResourceTopology of the pod's node
				podBeforeTopo = true
				r.Tag(nvTagStartup)
				r.Probe("c19:bound-pod-handled-before-its-topology")
			}
			switch ev.kind {
			case "add":
				h2.OnAdd(v.obj, true)
			case "dup-add":
				h2.OnAdd(v.obj, false)
			case "resync":
				h2.OnUpdate(v.obj, v.obj)
			case "same-allocation-update":
				h2.OnUpdate(v.obj, s.nvTouched(v, false))
			default:
				h2.OnUpdate(v.obj, s.nvTouched(v, true))
			}
			if ev.kind != "add" {
				r.Probe("c19:startup-pod-" + ev.kind)
			}
			r.Event("startup pod %s %s node=%s term=%v %s", ev.kind, v.name, v.node, v.term, v.alloc)
		}
	}
	if s.cfg.Order != "any" {
		// the convention: every NodeResourceTopology is handled before the first pod
		for _, ev := range nrtQ {
			deliver(ev)
		}
		nrtQ = nil
	}
	for len(nrtQ)+len(podQ)+len(nodeQ) > 0 {
		var qs []*[]nvStartEv
		for _, q := range []*[]nvStartEv{&nrtQ, &podQ, &nodeQ} {
			if len(*q) > 0 {
				qs = append(qs, q)
			}
		}
		q := qs[r.Choose(len(qs))]
		ev := (*q)[0]
		*q = (*q)[1:]
		deliver(ev)
	}
	class := "topology-first"
	if podBeforeTopo {
		class = "pod-before-topology"
	}
	r.Probe("c19:fork-order:" + class)

	rebuilt := map[string]*NodeAllocation{}
	for _, n := range nodeNames {
		// the public accessor every reader of the ledger goes through (a repair may complete deferred work here)
		rm2.GetNodeAllocation(n)
	}
	rm2.lock.Lock()
	for k, v := range rm2.nodeAllocations {
		rebuilt[k] = v
	}
	rm2.lock.Unlock()
	for name := range rebuilt {
		if s.nodes[name] == nil {
			r.Fail("rebuilt-vs-persisted", "unknown-node/"+class, "the rebuilt resource manager has a ledger for node %s which does not exist", name)
		}
	}
	for _, n := range nodeNames {
		r.Event("fork %d rebuilt %s %s", s.forks, n, nvLedgerString(rebuilt[n]))
	}

	for _, n := range nodeNames {
		t := s.nodes[n].topo
		s.nvCheckOptions(n, t, tm2.GetTopologyOptions(n))
		want := nvDerive(t, expected[n])
		// (b1) rebuilt == what the API objects say (independent of the live ledger)
		s.compareLedger("rebuilt-vs-persisted", class, fmt.Sprintf("fork %d after %s, rebuilt ledger vs bound pods of the API store", s.forks, trigger), n, rebuilt[n], want, t, nil, nil)

		// (b2) rebuilt == the live ledger restricted to the bound pods
		if s.liveBad {
			r.Probe("c19:live-comparison-skipped(live ledger failed a C06 oracle)")
		} else {
			lv := live[n]
			restricted := map[string]nvHolder{}
			missing, extra := 0, 0
			if lv != nil {
				for uid, pa := range lv.allocatedPods {
					if _, ok := expected[n][string(uid)]; ok {
						pa := pa
						restricted[string(uid)] = nvHolder{name: pa.Name, alloc: nvFromReal(&pa)}
					} else {
						extra++
					}
				}
			}
			missing = len(expected[n]) - len(restricted)
			if extra > 0 {
				// assumed-but-unbound allocations, pods whose delete / termination the live scheduler has not seen yet
				r.Probe("c19:live-holds-allocations-that-vanish-at-restart")
			}
			if missing > 0 {
				// only after a lost bind acknowledgement (Unreserve released a pod that is bound) until the pod informer reports the pod
				r.Probe("c19:bound-pod-not-in-live-ledger")
			} else {
				s.compareLedger("rebuilt-vs-live", class, fmt.Sprintf("fork %d after %s, rebuilt ledger vs live ledger restricted to bound pods", s.forks, trigger), n, rebuilt[n], nvDerive(t, restricted), t, s.exclOther, nil)
				if extra == 0 && lv != nil && rebuilt[n] != nil {
					// the live ledger holds exactly the bound pods: the raw per-CPU records must be identical too
					r.OracleEval()
					r.Probe("c19:raw-ledger-compared")
					for _, c := range nvSortedInts(lv.allocatedCPUs) {
						a, b := lv.allocatedCPUs[c], rebuilt[n].allocatedCPUs[c]
						// "" and "None" are the same policy (the accumulator only looks for PCPULevel / NUMANodeLevel)
						a.ExclusivePolicy = schedulingconfig.CPUExclusivePolicy(nvExclNorm(string(a.ExclusivePolicy)))
						b.ExclusivePolicy = schedulingconfig.CPUExclusivePolicy(nvExclNorm(string(b.ExclusivePolicy)))
						if s.mixed[n][c] {
							// pods with different exclusive policies were stacked on this CPU (MaxRefCount > 1): the ledger keeps the
							// last writer's policy, which depends on the order of the adds (recorded finding, history tag nvTagStacked).
							// So that such runs are still explored to their end, the difference is only counted at the crash points in
							// the middle of a history and reported, after every other oracle, at the last one.
							if a.ExclusivePolicy != b.ExclusivePolicy {
								r.Probe("c19:exclusive-policy-of-stacked-cpu-differs")
								if stackedDiff == "" {
									stackedDiff = fmt.Sprintf("fork %d after %s: node %s CPU %d (on which pods with different exclusive policies were stacked): live record %+v, rebuilt record %+v", s.forks, trigger, n, c, a, b)
								}
							}
							a.ExclusivePolicy, b.ExclusivePolicy = "", ""
						}
						for _, huid := range nvSortedHolders(expected[n]) {
							h := expected[n][huid]
							if !s.exclOther[huid] || a.ExclusivePolicy == b.ExclusivePolicy {
								continue
							}
							for _, hc := range h.alloc.cpus {
								if hc == c {
									// a CPU of a pod of the history class nvTagExclOther: see compareLedger
									if s.exclDiff == "" {
										s.exclDiff = fmt.Sprintf("fork %d after %s: node %s CPU %d (held by pod %s): live record %+v, rebuilt record %+v", s.forks, trigger, n, c, h.name, a, b)
									}
									a.ExclusivePolicy, b.ExclusivePolicy = "", ""
									break
								}
							}
						}
						if a != b {
							r.Fail("rebuilt-vs-live", "cpu-record/"+class, "fork %d after %s: node %s CPU %d: live record %+v, rebuilt record %+v", s.forks, trigger, n, c, a, b)
						}
					}
				}
			}
		}

		if final {
			// At the end of the history the scheduler that made the allocations has been told everything (every event is
			// delivered, no cycle in flight): the state it holds must know every bound pod of the store - also the ones it
			// un-reserved after a lost bind acknowledgement and learned back from its informer - or the rebuilt state cannot be
			// identical to it. (Judged whether or not one of C06's oracles failed earlier in the run.)
			r.OracleEval()
			for _, uid := range nvSortedHolders(expected[n]) {
				if lv := live[n]; lv == nil || !nvHasPod(lv, uid) {
					r.Fail("rebuilt-vs-live", "bound-pod-not-in-live-ledger/"+class, "fork %d after %s: node %s: pod %s (%s) is bound and holds %s; the rebuilt ledger knows it, the ledger of the scheduler that made the allocation does not",
						s.forks, trigger, n, expected[n][uid].name, uid, expected[n][uid].alloc)
				}
			}
		}

		// (c) nothing taken before the restart is offered after it
		s.probeAfterRestart(class, trigger, n, rm2, tm2, want)
	}
	r.Sample("fork %d after %s: %d nodes, %d pods (%d bound with an allocation), order %s", s.forks, trigger, len(nodeNames), len(podNames), nBound, class)
	if final && s.exclDiff != "" {
		r.Fail("persisted-vs-allocation", "exclusive-policy/pod-that-is-not-lse-lsr", "%s", s.exclDiff)
	}
	if final && stackedDiff != "" {
		r.Fail("rebuilt-vs-live", "exclusive-policy-of-stacked-cpu/"+class, "%s", stackedDiff)
	}
}

// probeAfterRestart: the free CPU set of the rebuilt cache is exactly "not reserved and held by fewer than
// MaxRefCount bound pods"; an allocation of ALL remaining CPUs and of ALL remaining NUMA amounts on the rebuilt
// cache never hands out anything a bound pod holds.
func (s *nvSim) probeAfterRestart(class, trigger, node string, rm2 *resourceManager, tm2 TopologyOptionsManager, want *nvLedger) {
	r := s.r
	nd := s.nodes[node]
	t := nd.topo
	where := fmt.Sprintf("fork %d after %s: node %s", s.forks, trigger, node)
	r.OracleEval()
	avail, _, err := rm2.GetAvailableCPUs(node)
	if err != nil {
		r.Fail("offered-after-restart", "available-error/"+class, "%s: GetAvailableCPUs on the rebuilt cache: %v", where, err)
	}
	nFree := 0
	for c := 0; c < t.numCPUs(); c++ {
		free := !t.reserved(c) && want.cnt[c] < t.Max
		if free {
			nFree++
		}
		if avail.Contains(c) && !free {
			r.Fail("offered-after-restart", "taken-cpu-in-free-set/"+class, "%s: CPU %d is held by %d bound pods (MaxRefCount %d, reserved=%v) but the rebuilt cache offers it; free set %v",
				where, c, want.cnt[c], t.Max, t.reserved(c), avail.ToSlice())
		}
		if !avail.Contains(c) && free {
			r.Fail("offered-after-restart", "free-cpu-withheld/"+class, "%s: CPU %d is held by %d bound pods (MaxRefCount %d) but the rebuilt cache does not offer it; free set %v",
				where, c, want.cnt[c], t.Max, avail.ToSlice())
		}
	}
	opts := tm2.GetTopologyOptions(node)
	probe := &corev1.Pod{ObjectMeta: metav1.ObjectMeta{Name: "restart-probe", Namespace: "default", UID: "u-restart-probe"}}
	if nFree > 0 {
		reqs := nvToRL(map[string]int64{nvCPU: int64(nFree) * 1000})
		pa, status := rm2.Allocate(nd.obj, probe, &ResourceOptions{numCPUsNeeded: nFree, requestCPUBind: true, requests: reqs, originalRequests: reqs,
			preferredCPUs: cpuset.NewCPUSet(), preemptibleCPUs: cpuset.NewCPUSet(), topologyOptions: opts})
		r.OracleEval()
		if status.IsSuccess() && pa != nil {
			r.Probe("c19:probe-all-free-cpus-ok")
			got := pa.CPUSet.ToSlice()
			if len(got) != nFree {
				r.Fail("offered-after-restart", "probe-cpu-count/"+class, "%s: probe for all %d free CPUs got %v", where, nFree, got)
			}
			for _, c := range got {
				if t.reserved(c) || want.cnt[c] >= t.Max {
					r.Fail("offered-after-restart", "probe-got-taken-cpu/"+class, "%s: probe allocation for all %d free CPUs got CPU %d which %d bound pods hold (MaxRefCount %d, reserved=%v): %v",
						where, nFree, c, want.cnt[c], t.Max, t.reserved(c), got)
				}
			}
		} else {
			r.Probe("c19:probe-all-free-cpus-failed")
		}
	} else {
		r.Probe("c19:probe-no-free-cpu")
	}
	// everything that is left per NUMA node, asked for with a hint naming every NUMA node
	left := map[int]map[string]int64{}
	req := map[string]int64{}
	var all []int
	for n := 0; n < t.numNodes(); n++ {
		all = append(all, n)
		left[n] = map[string]int64{}
		for d, c := range t.capacity(n) {
			f := c - want.used[n][d]
			if f < 0 {
				f = 0
			}
			left[n][d] = f
			req[d] += f
		}
	}
	for d, v := range req {
		if v == 0 {
			delete(req, d)
		}
	}
	if len(req) == 0 {
		r.Probe("c19:probe-nothing-left-per-numa")
		return
	}
	mask, err := bitmask.NewBitMask(all...)
	if err != nil {
		r.HarnessFail("bitmask: %v", err)
	}
	reqs := nvToRL(req)
	pa, status := rm2.Allocate(nd.obj, probe, &ResourceOptions{requests: reqs, originalRequests: reqs, preferredCPUs: cpuset.NewCPUSet(), preemptibleCPUs: cpuset.NewCPUSet(),
		topologyOptions: opts, hint: topologymanager.NUMATopologyHint{NUMANodeAffinity: mask}})
	r.OracleEval()
	if !status.IsSuccess() || pa == nil {
		r.Fail("offered-after-restart", "free-amount-withheld/"+class, "%s: probe for everything that is left per NUMA node {%s} fails on the rebuilt cache (%s); left per node %v, held by bound pods %v",
			where, nvFmt(req), status.Message(), left, want.used)
	}
	r.Probe("c19:probe-all-free-numa-amounts-ok")
	g := nvFromReal(pa)
	for _, n := range nvSortedInts(g.numa) {
		for _, d := range nvSortedKeys(g.numa[n]) {
			if g.numa[n][d] > left[n][d] {
				r.Fail("offered-after-restart", "probe-got-taken-amount/"+class, "%s: probe allocation got %s=%d from NUMA node %d where only %d is left (capacity %d, bound pods hold %d)",
					where, d, g.numa[n][d], n, left[n][d], t.capacity(n)[d], want.used[n][d])
			}
		}
	}
}
