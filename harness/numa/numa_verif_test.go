//go:build verif

package nodenumaresource

// Engine `numa` (C06): the real resourceManager (Allocate / Update / Release /
// onNodeDelete), NodeAllocation ledger, CPU accumulator (takeCPUs,
// takePreferredCPUs), NUMA split (tryBestToDistributeEvenly, splitQuantity,
// allocateRes), satisfiedRequiredCPUBindPolicy and the pod event handler
// (updatePod / deletePod with the persisted resource-status annotation) run
// against simulated histories. resourceManager takes one lock per node
// allocation, so the history is interleaved at operation level: the driver
// picks the next party (scheduler step, informer delivery, binding result, API
// operation) from the deliver tape. See /verif/DESIGN.md §4 C06.

import (
	"fmt"
	"sort"
	"strings"
	"testing"

	corev1 "k8s.io/api/core/v1"
	"k8s.io/apimachinery/pkg/api/resource"
	metav1 "k8s.io/apimachinery/pkg/apis/meta/v1"
	"k8s.io/apimachinery/pkg/types"
	"k8s.io/client-go/tools/cache"

	apiext "github.com/koordinator-sh/koordinator/apis/extension"
	schedulingconfig "github.com/koordinator-sh/koordinator/pkg/scheduler/apis/config"
	"github.com/koordinator-sh/koordinator/pkg/scheduler/frameworkext/topologymanager"
	"github.com/koordinator-sh/koordinator/pkg/util/bitmask"
	"github.com/koordinator-sh/koordinator/pkg/util/cpuset"
	sim "github.com/koordinator-sh/koordinator/pkg/verifsim"
)

func TestVerifSim(t *testing.T) { sim.Main(t, &nvEngine{}) }

type nvEngine struct{}

func (nvEngine) Name() string { return "numa" }

const (
	nvCPU       = "cpu"    // milli-CPUs
	nvMem       = "memory" // bytes
	nvExt       = "example.com/dev"
	nvUntracked = "example.com/untracked" // never reported per NUMA node
	// history class of the recorded finding (known_findings.jsonl): a NUMA-level
	// allocation whose hint names several nodes and is not exactly {0,1}
	nvTagHint = "numa-hint-multi-node-not-01"
)

// ---------------------------------------------------------------- plan types

type nvCfg struct {
	Strategy string `json:"strategy"` // scheduler-wide default NUMA allocate strategy
}

type nvTopo struct {
	S     int     `json:"s"`             // sockets
	NPS   int     `json:"nps"`           // NUMA nodes per socket
	C     int     `json:"c"`             // cores per NUMA node
	T     int     `json:"t"`             // threads per core
	Lay   int     `json:"lay,omitempty"` // 0: sibling threads have adjacent ids; 1: sibling = id + number of cores
	Res   []int   `json:"res,omitempty"` // reserved CPUs
	Max   int     `json:"max"`           // MaxRefCount
	Mem   []int64 `json:"mem"`           // memory capacity per NUMA node
	Ext   []int64 `json:"ext,omitempty"` // capacity of example.com/dev per NUMA node; -1: not reported on that node
	Strat string  `json:"strat,omitempty"`
}

type nvAmt struct {
	N int              `json:"n"`
	R map[string]int64 `json:"r"`
}

// nvPre is a pod that already runs on the node when the scheduler first sees it
// (allocated by an earlier scheduler incarnation; arrives as informer Add with
// the persisted annotation).
type nvPre struct {
	P    string  `json:"p"`
	CPUs []int   `json:"cpus,omitempty"`
	NUMA []nvAmt `json:"numa,omitempty"`
	Excl string  `json:"excl,omitempty"`
}

type nvOp struct {
	K    string  `json:"k"`
	N    string  `json:"n,omitempty"`
	P    string  `json:"p,omitempty"`
	Topo *nvTopo `json:"topo,omitempty"`
	Pre  []nvPre `json:"pre,omitempty"`
	// pod_create
	Bind bool             `json:"bind,omitempty"` // pod asks for a CPU set (LSE/LSR)
	Pol  string           `json:"pol,omitempty"`  // CPU bind policy
	Reqd bool             `json:"required,omitempty"`
	Excl string           `json:"excl,omitempty"`
	Req  map[string]int64 `json:"req,omitempty"`
	// sched
	Hint      []int `json:"hint,omitempty"` // NUMA affinity chosen by the topology manager for this cycle
	Abandon   bool  `json:"abandon,omitempty"`
	BindFails bool  `json:"bind_fails,omitempty"`
	// take (direct call of takePreferredCPUs on the node's current state, as the reservation-restore path does)
	Pref []int `json:"pref,omitempty"`
	CPUs int   `json:"cpus,omitempty"`
}

// ---------------------------------------------------------------- independent topology model

type nvCPUPos struct{ socket, node, core int }

func (t *nvTopo) numCPUs() int  { return t.S * t.NPS * t.C * t.T }
func (t *nvTopo) numNodes() int { return t.S * t.NPS }
func (t *nvTopo) valid() bool {
	return t != nil && t.S >= 1 && t.NPS >= 1 && t.C >= 1 && t.T >= 1 && t.Max >= 1 && len(t.Mem) == t.numNodes() &&
		(t.Ext == nil || len(t.Ext) == t.numNodes()) && t.numNodes() <= 16
}

// pos is the harness's own map from CPU id to (socket, NUMA node, physical core); it is
// derived from the plan's shape parameters only, never from the CPUTopology under test.
func (t *nvTopo) pos(cpu int) (nvCPUPos, bool) {
	if cpu < 0 || cpu >= t.numCPUs() {
		return nvCPUPos{}, false
	}
	var gcore int
	if t.Lay == 1 {
		gcore = cpu % (t.S * t.NPS * t.C)
	} else {
		gcore = cpu / t.T
	}
	node := gcore / t.C
	return nvCPUPos{socket: node / t.NPS, node: node, core: gcore}, true
}

func (t *nvTopo) reserved(cpu int) bool {
	for _, c := range t.Res {
		if c == cpu {
			return true
		}
	}
	return false
}

// capacity reported per NUMA node (what NewTopologyOptions derives from the
// NodeResourceTopology: reserved CPUs are already subtracted from the cpu amount)
func (t *nvTopo) capacity(n int) map[string]int64 {
	out := map[string]int64{}
	cpus := 0
	for c := 0; c < t.numCPUs(); c++ {
		if p, _ := t.pos(c); p.node == n && !t.reserved(c) {
			cpus++
		}
	}
	out[nvCPU] = int64(cpus) * 1000
	out[nvMem] = t.Mem[n]
	if t.Ext != nil && t.Ext[n] >= 0 {
		out[nvExt] = t.Ext[n]
	}
	return out
}

func (t *nvTopo) tracked(dim string) bool {
	switch dim {
	case nvCPU, nvMem:
		return true
	case nvExt:
		for _, v := range t.Ext {
			if v >= 0 {
				return true
			}
		}
	}
	return false
}

func nvQuantity(dim string, v int64) resource.Quantity {
	switch dim {
	case nvCPU:
		return *resource.NewMilliQuantity(v, resource.DecimalSI)
	case nvMem:
		return *resource.NewQuantity(v, resource.BinarySI)
	}
	return *resource.NewQuantity(v, resource.DecimalSI)
}

func nvToRL(m map[string]int64) corev1.ResourceList {
	out := corev1.ResourceList{}
	for k, v := range m {
		out[corev1.ResourceName(k)] = nvQuantity(k, v)
	}
	return out
}

func nvVal(dim string, q resource.Quantity) int64 {
	if dim == nvCPU {
		return q.MilliValue()
	}
	return q.Value()
}

func (t *nvTopo) options() TopologyOptions {
	b := NewCPUTopologyBuilder()
	for c := 0; c < t.numCPUs(); c++ {
		p, _ := t.pos(c)
		// the kernel reports core ids per socket
		b.AddCPUInfo(p.socket, p.node, p.core-p.socket*t.NPS*t.C, c)
	}
	opts := TopologyOptions{
		CPUTopology:  b.Result(),
		ReservedCPUs: cpuset.NewCPUSet(t.Res...),
		MaxRefCount:  t.Max,
	}
	for n := 0; n < t.numNodes(); n++ {
		opts.NUMANodeResources = append(opts.NUMANodeResources, NUMANodeResource{Node: n, Resources: nvToRL(t.capacity(n))})
	}
	return opts
}

// ---------------------------------------------------------------- model

type nvAlloc struct {
	cpus []int                    // sorted
	numa map[int]map[string]int64 // NUMA node -> dimension -> amount
}

func (a *nvAlloc) empty() bool { return a == nil || (len(a.cpus) == 0 && len(a.numa) == 0) }

func (a *nvAlloc) String() string {
	if a == nil {
		return "-"
	}
	var sb strings.Builder
	fmt.Fprintf(&sb, "cpus=%v", a.cpus)
	ns := make([]int, 0, len(a.numa))
	for n := range a.numa {
		ns = append(ns, n)
	}
	sort.Ints(ns)
	for _, n := range ns {
		fmt.Fprintf(&sb, " n%d{%s}", n, nvFmt(a.numa[n]))
	}
	return sb.String()
}

func nvFmt(m map[string]int64) string {
	ks := make([]string, 0, len(m))
	for k := range m {
		ks = append(ks, k)
	}
	sort.Strings(ks)
	var sb strings.Builder
	for i, k := range ks {
		if i > 0 {
			sb.WriteByte(' ')
		}
		fmt.Fprintf(&sb, "%s=%d", k, m[k])
	}
	return sb.String()
}

func nvFromReal(pa *PodAllocation) *nvAlloc {
	a := &nvAlloc{cpus: pa.CPUSet.ToSlice(), numa: map[int]map[string]int64{}}
	for _, nr := range pa.NUMANodeResources {
		m := a.numa[nr.Node]
		if m == nil {
			m = map[string]int64{}
			a.numa[nr.Node] = m
		}
		for k, q := range nr.Resources {
			m[string(k)] += nvVal(string(k), q)
		}
	}
	return a
}

type nvSpec struct {
	Bind bool
	Pol  string
	Reqd bool
	Excl string
	Req  map[string]int64
}

// nvPodVer is one version of a pod object in the API server.
type nvPodVer struct {
	name, uid, node string
	term            bool
	alloc           *nvAlloc // persisted resource-status annotation
	spec            nvSpec
	rv              int
	obj             *corev1.Pod
}

type nvNode struct {
	name string
	topo *nvTopo
	obj  *corev1.Node
}

type nvEvent struct {
	typ, kind string // typ: pod | nrt | node ; kind: add | update | delete
	old, new  *nvPodVer
	node      string
	nodeObj   *corev1.Node
}

type nvCycle struct {
	pod       *nvPodVer
	node      string
	real      *PodAllocation
	alloc     *nvAlloc
	bindFails bool
	stepsIn   int
}

type nvSim struct {
	r   *sim.Run
	cfg nvCfg
	rm  *resourceManager
	tm  TopologyOptionsManager
	h   *podEventHandler
	// API server
	nodes map[string]*nvNode
	pods  map[string]*nvPodVer
	rv    int
	// informer transport
	streams map[string][]nvEvent
	// scheduler's view
	known      map[string]*nvNode // topology delivered (NodeResourceTopology stream)
	schedNodes map[string]bool    // node delivered (node stream)
	queue      map[string]*nvPodVer
	assumed    map[string]bool // pods this scheduler assumed (cycle committed or committing) and did not un-reserve: never scheduled again
	cycle      *nvCycle
	binds      []*nvCycle
	// event-level model of the ledger: node -> pod uid -> allocation
	holders map[string]map[string]*nvAlloc
	steps   int
}

func (s *nvSim) bump() int { s.rv++; return s.rv }

func (s *nvSim) mkPod(v *nvPodVer) *nvPodVer {
	pod := &corev1.Pod{
		ObjectMeta: metav1.ObjectMeta{Name: v.name, Namespace: "default", UID: types.UID(v.uid), ResourceVersion: fmt.Sprint(v.rv),
			Labels: map[string]string{}, Annotations: map[string]string{}},
		Spec: corev1.PodSpec{NodeName: v.node, Containers: []corev1.Container{{Name: "c",
			Resources: corev1.ResourceRequirements{Requests: nvToRL(v.spec.Req), Limits: nvToRL(v.spec.Req)}}}},
		Status: corev1.PodStatus{Phase: corev1.PodPending},
	}
	if v.spec.Bind {
		pod.Labels[apiext.LabelPodQoS] = string(apiext.QoSLSR)
	}
	spec := &apiext.ResourceSpec{PreferredCPUExclusivePolicy: apiext.CPUExclusivePolicy(v.spec.Excl)}
	if v.spec.Reqd {
		spec.RequiredCPUBindPolicy = apiext.CPUBindPolicy(v.spec.Pol)
	} else {
		spec.PreferredCPUBindPolicy = apiext.CPUBindPolicy(v.spec.Pol)
	}
	if v.spec.Bind || v.spec.Excl != "" {
		if err := apiext.SetResourceSpec(pod, spec); err != nil {
			s.r.HarnessFail("SetResourceSpec: %v", err)
		}
	}
	if v.node != "" {
		pod.Status.Phase = corev1.PodRunning
	}
	if v.term {
		pod.Status.Phase = corev1.PodSucceeded
	}
	if !v.alloc.empty() {
		// what Plugin.preBindObject persists (resource-status annotation), through the real codec
		st := &apiext.ResourceStatus{CPUSet: cpuset.NewCPUSet(v.alloc.cpus...).String()}
		ns := make([]int, 0, len(v.alloc.numa))
		for n := range v.alloc.numa {
			ns = append(ns, n)
		}
		sort.Ints(ns)
		for _, n := range ns {
			st.NUMANodeResources = append(st.NUMANodeResources, apiext.NUMANodeResource{Node: int32(n), Resources: nvToRL(v.alloc.numa[n])})
		}
		if err := apiext.SetResourceStatus(pod, st); err != nil {
			s.r.HarnessFail("SetResourceStatus: %v", err)
		}
	}
	v.obj = pod
	return v
}

func (s *nvSim) emit(ev nvEvent) { s.streams[ev.typ] = append(s.streams[ev.typ], ev) }

func (s *nvSim) pendingFor(node string) bool {
	for _, ev := range s.streams["pod"] {
		if (ev.new != nil && ev.new.node == node) || (ev.old != nil && ev.old.node == node) {
			return true
		}
	}
	for _, typ := range []string{"nrt", "node"} {
		for _, ev := range s.streams[typ] {
			if ev.node == node {
				return true
			}
		}
	}
	if s.cycle != nil && s.cycle.node == node {
		return true
	}
	for _, b := range s.binds {
		if b.node == node {
			return true
		}
	}
	return false
}

// ---- model ledger helpers

func (s *nvSim) hold(node, uid string, a *nvAlloc) {
	if s.holders[node] == nil {
		s.holders[node] = map[string]*nvAlloc{}
	}
	s.holders[node][uid] = a
}

func (s *nvSim) unhold(node, uid string) { delete(s.holders[node], uid) }

func (s *nvSim) cpuCounts(node string) map[int]int {
	cnt := map[int]int{}
	for _, a := range s.holders[node] {
		for _, c := range a.cpus {
			cnt[c]++
		}
	}
	return cnt
}

func (s *nvSim) numaUsed(node string) map[int]map[string]int64 {
	used := map[int]map[string]int64{}
	for _, a := range s.holders[node] {
		for n, m := range a.numa {
			if used[n] == nil {
				used[n] = map[string]int64{}
			}
			for d, v := range m {
				used[n][d] += v
			}
		}
	}
	return used
}

// numaFree is what each NUMA node has free according to the statement: reported
// capacity minus what the live holders were handed from that node.
func (s *nvSim) numaFree(node string, t *nvTopo) map[int]map[string]int64 {
	used := s.numaUsed(node)
	free := map[int]map[string]int64{}
	for n := 0; n < t.numNodes(); n++ {
		free[n] = map[string]int64{}
		for d, c := range t.capacity(n) {
			f := c - used[n][d]
			if f < 0 {
				f = 0
			}
			free[n][d] = f
		}
	}
	return free
}

// ---------------------------------------------------------------- API operations

// applyPre validates one pre-existing pod against the node's topology and what
// the earlier pre-existing pods hold (an earlier scheduler incarnation obeyed the
// same rules), and returns its allocation.
func nvPreAlloc(t *nvTopo, pre *nvPre, cnt map[int]int, used map[int]map[string]int64) *nvAlloc {
	a := &nvAlloc{numa: map[int]map[string]int64{}}
	seen := map[int]bool{}
	for _, c := range pre.CPUs {
		if _, ok := t.pos(c); !ok || t.reserved(c) || seen[c] || cnt[c] >= t.Max {
			return nil
		}
		seen[c] = true
		a.cpus = append(a.cpus, c)
	}
	sort.Ints(a.cpus)
	for _, am := range pre.NUMA {
		if am.N < 0 || am.N >= t.numNodes() || a.numa[am.N] != nil {
			return nil
		}
		capn := t.capacity(am.N)
		m := map[string]int64{}
		for d, v := range am.R {
			c, ok := capn[d]
			if !ok || v <= 0 || used[am.N][d]+v > c {
				return nil
			}
			m[d] = v
		}
		if len(m) == 0 {
			return nil
		}
		a.numa[am.N] = m
	}
	if a.empty() {
		return nil
	}
	for _, c := range a.cpus {
		cnt[c]++
	}
	for n, m := range a.numa {
		if used[n] == nil {
			used[n] = map[string]int64{}
		}
		for d, v := range m {
			used[n][d] += v
		}
	}
	return a
}

func (s *nvSim) nodeObj(name string, t *nvTopo) *corev1.Node {
	n := &corev1.Node{ObjectMeta: metav1.ObjectMeta{Name: name, Labels: map[string]string{}}}
	if t.Strat != "" {
		n.Labels[apiext.LabelNodeNUMAAllocateStrategy] = t.Strat
	}
	return n
}

func (s *nvSim) opNodeAdd(op *nvOp) bool {
	if op.N == "" || s.nodes[op.N] != nil || !op.Topo.valid() || s.pendingFor(op.N) {
		return false
	}
	t := op.Topo
	nd := &nvNode{name: op.N, topo: t, obj: s.nodeObj(op.N, t)}
	s.nodes[op.N] = nd
	// A node the scheduler (re)starts with: NodeResourceTopology is synced first
	// (ForceSyncFromInformer in NewWithOptions), then the pods that already run there arrive as Add.
	opts := t.options()
	s.tm.UpdateTopologyOptions(op.N, func(o *TopologyOptions) { *o = opts })
	s.known[op.N] = nd
	s.schedNodes[op.N] = true
	if _, had := s.holders[op.N]; had {
		s.r.Probe("node-name-reused")
	}
	s.r.Event("node_add %s %dx%dx%dx%d lay=%d res=%v max=%d", op.N, t.S, t.NPS, t.C, t.T, t.Lay, t.Res, t.Max)
	cnt, used := map[int]int{}, map[int]map[string]int64{}
	for i := range op.Pre {
		pre := &op.Pre[i]
		if pre.P == "" || s.pods[pre.P] != nil {
			continue
		}
		a := nvPreAlloc(t, pre, cnt, used)
		if a == nil {
			continue
		}
		req := map[string]int64{nvCPU: int64(len(a.cpus)) * 1000}
		v := s.mkPod(&nvPodVer{name: pre.P, uid: "u-" + pre.P, node: op.N, alloc: a, rv: s.bump(),
			spec: nvSpec{Bind: len(a.cpus) > 0, Pol: string(apiext.CPUBindPolicyFullPCPUs), Excl: pre.Excl, Req: req}})
		s.pods[pre.P] = v
		s.h.OnAdd(v.obj, true)
		s.hold(op.N, v.uid, a)
		s.r.Event("pre %s on %s %s", pre.P, op.N, a)
		s.r.Probe("pre-existing-pod-add")
	}
	return true
}

func (s *nvSim) opNodeDel(op *nvOp) bool {
	nd := s.nodes[op.N]
	if nd == nil {
		return false
	}
	delete(s.nodes, op.N)
	// the pods bound to the node go with it (pod GC); their delete events travel on the pod stream
	names := make([]string, 0)
	for n, p := range s.pods {
		if p.node == op.N {
			names = append(names, n)
		}
	}
	sort.Strings(names)
	for _, n := range names {
		s.emit(nvEvent{typ: "pod", kind: "delete", old: s.pods[n]})
		delete(s.pods, n)
	}
	if len(names) > 0 {
		s.r.Probe("node-delete-with-pods")
	}
	s.emit(nvEvent{typ: "nrt", kind: "delete", node: op.N})
	s.emit(nvEvent{typ: "node", kind: "delete", node: op.N, nodeObj: nd.obj})
	s.r.Event("node_del %s pods=%d", op.N, len(names))
	return true
}

func (s *nvSim) opPodCreate(op *nvOp) bool {
	if op.P == "" || s.pods[op.P] != nil || op.Req[nvCPU] <= 0 {
		return false
	}
	if op.Bind && op.Req[nvCPU]%1000 != 0 {
		return false // PreFilter rejects fractional CPU requests of CPU-set pods
	}
	for _, v := range op.Req {
		if v <= 0 {
			return false
		}
	}
	if _, dup := s.queue[op.P]; dup {
		return false
	}
	for _, ev := range s.streams["pod"] {
		if (ev.new != nil && ev.new.name == op.P) || (ev.old != nil && ev.old.name == op.P) {
			return false // names are not reused while events of an earlier pod are in flight
		}
	}
	v := s.mkPod(&nvPodVer{name: op.P, uid: "u-" + op.P, rv: s.bump(), spec: nvSpec{Bind: op.Bind, Pol: op.Pol, Reqd: op.Reqd && op.Bind, Excl: op.Excl, Req: op.Req}})
	s.pods[op.P] = v
	s.emit(nvEvent{typ: "pod", kind: "add", new: v})
	s.r.Event("pod_create %s bind=%v pol=%s req=%v excl=%s {%s}", op.P, op.Bind, op.Pol, op.Reqd, op.Excl, nvFmt(op.Req))
	return true
}

func (s *nvSim) opPodDelete(op *nvOp) bool {
	cur := s.pods[op.P]
	if cur == nil {
		return false
	}
	delete(s.pods, op.P)
	s.emit(nvEvent{typ: "pod", kind: "delete", old: cur})
	s.r.Event("pod_delete %s", op.P)
	return true
}

func (s *nvSim) opPodTerm(op *nvOp) bool {
	cur := s.pods[op.P]
	if cur == nil || cur.node == "" || cur.term {
		return false
	}
	nv := *cur
	nv.term, nv.rv = true, s.bump()
	s.pods[op.P] = s.mkPod(&nv)
	s.emit(nvEvent{typ: "pod", kind: "update", old: cur, new: s.pods[op.P]})
	s.r.Event("pod_term %s", op.P)
	return true
}

func (s *nvSim) opResync(op *nvOp) bool {
	cur := s.pods[op.P]
	if cur == nil {
		return false
	}
	s.emit(nvEvent{typ: "pod", kind: "update", old: cur, new: cur})
	s.r.Event("resync %s", op.P)
	return true
}

// ---------------------------------------------------------------- informer delivery

func (s *nvSim) deliver(typ string) {
	q := s.streams[typ]
	ev := q[0]
	q = q[1:]
	if typ == "pod" && ev.kind == "update" && len(q) > 0 && q[0].kind == "update" && q[0].new.name == ev.new.name && s.r.Flip(0.15) {
		// coalescing: consecutive updates of one object merged by the informer
		ev = nvEvent{typ: "pod", kind: "update", old: ev.old, new: q[0].new}
		q = q[1:]
		s.r.Probe("coalesced-update")
	}
	s.streams[typ] = q
	if s.cycle != nil {
		s.cycle.stepsIn++
	}
	switch typ {
	case "nrt":
		s.tm.Delete(ev.node)
		delete(s.known, ev.node)
		s.r.Event("deliver nrt delete %s", ev.node)
	case "node":
		if s.r.Flip(0.2) {
			s.rm.onNodeDelete(cache.DeletedFinalStateUnknown{Key: ev.node, Obj: ev.nodeObj})
		} else {
			s.rm.onNodeDelete(ev.nodeObj)
		}
		delete(s.schedNodes, ev.node)
		delete(s.holders, ev.node)
		s.r.Event("deliver node delete %s", ev.node)
	case "pod":
		s.deliverPod(ev)
	}
}

func (s *nvSim) deliverPod(ev nvEvent) {
	switch ev.kind {
	case "add", "update":
		v := ev.new
		if ev.kind == "add" {
			s.h.OnAdd(v.obj, false)
		} else {
			s.h.OnUpdate(ev.old.obj, v.obj)
		}
		s.r.Event("deliver pod %s %s node=%s term=%v %s", ev.kind, v.name, v.node, v.term, v.alloc)
		switch {
		case v.node == "":
			if !s.assumed[v.name] {
				s.queue[v.name] = v
			}
		case v.term:
			delete(s.queue, v.name)
			if _, held := s.holders[v.node][v.uid]; held {
				s.r.Probe("terminated-release")
			}
			s.unhold(v.node, v.uid)
		default:
			delete(s.queue, v.name)
			if v.alloc.empty() {
				return
			}
			if s.known[v.node] == nil {
				// resourceManager.Update has nothing to account against without the node's CPU topology;
				// only reachable for nodes that are being deleted (the topology object goes with the node)
				s.r.Probe("update-without-topology")
				return
			}
			if _, held := s.holders[v.node][v.uid]; held {
				s.r.Probe("same-allocation-again")
			} else {
				s.r.Probe("informer-readds-allocation")
			}
			s.hold(v.node, v.uid, v.alloc)
		}
	case "delete":
		v := ev.old
		if s.r.Flip(0.2) {
			s.h.OnDelete(cache.DeletedFinalStateUnknown{Key: "default/" + v.name, Obj: v.obj})
			s.r.Probe("tombstone-delete")
		} else {
			s.h.OnDelete(v.obj)
		}
		s.r.Event("deliver pod delete %s node=%s", v.name, v.node)
		delete(s.queue, v.name)
		if v.node != "" {
			s.unhold(v.node, v.uid)
		}
	}
}

// ---------------------------------------------------------------- scheduling cycle

func nvSortedCopy(xs []int) []int {
	out := append([]int(nil), xs...)
	sort.Ints(out)
	return out
}

func nvIsPrefix(sorted []int) bool {
	for i, v := range sorted {
		if v != i {
			return false
		}
	}
	return true
}

// opSched runs the allocation half of one scheduling cycle (Plugin.allocate ->
// resourceManager.Allocate) and checks the result against the model.
func (s *nvSim) opSched(op *nvOp) bool {
	if s.queue[op.P] == nil && !s.assumed[op.P] && s.cycle == nil {
		// the scheduler can only pick a pod it has seen: let the pod informer catch up to the pod's add
		pending := func() bool {
			for _, ev := range s.streams["pod"] {
				if ev.kind == "add" && ev.new.name == op.P {
					return true
				}
			}
			return false
		}
		for pending() {
			s.deliver("pod")
			s.checkLedger("pod informer catch-up")
		}
	}
	pod := s.queue[op.P]
	nd := s.known[op.N]
	if pod == nil || nd == nil || !s.schedNodes[op.N] || s.cycle != nil {
		return false
	}
	if s.assumed[op.P] {
		return false
	}
	t := nd.topo
	var hint []int
	if op.Hint != nil {
		hint = nvSortedCopy(op.Hint)
		for i, n := range hint {
			if n < 0 || n >= t.numNodes() || (i > 0 && hint[i-1] == n) {
				return false
			}
		}
		if len(hint) == 0 {
			return false
		}
	}
	if !pod.spec.Bind && hint == nil {
		return false // Plugin.allocate returns before Allocate: nothing to do for this pod on this node
	}
	need := int(pod.spec.Req[nvCPU] / 1000)
	reqs := nvToRL(pod.spec.Req)
	opts := &ResourceOptions{
		numCPUsNeeded:         need,
		requestCPUBind:        pod.spec.Bind,
		requests:              reqs,
		originalRequests:      reqs,
		requiredCPUBindPolicy: pod.spec.Bind && pod.spec.Reqd,
		cpuBindPolicy:         schedulingconfig.CPUBindPolicy(pod.spec.Pol),
		cpuExclusivePolicy:    schedulingconfig.CPUExclusivePolicy(pod.spec.Excl),
		preferredCPUs:         cpuset.NewCPUSet(),
		preemptibleCPUs:       cpuset.NewCPUSet(),
		topologyOptions:       s.tm.GetTopologyOptions(op.N),
	}
	if hint != nil {
		mask, err := bitmask.NewBitMask(hint...)
		if err != nil {
			s.r.HarnessFail("bitmask: %v", err)
		}
		opts.hint = topologymanager.NUMATopologyHint{NUMANodeAffinity: mask}
		if len(hint) >= 3 || (len(hint) == 2 && !nvIsPrefix(hint)) {
			// history class of the recorded finding: a multi-node hint other than {0,1} (the comparator of the
			// ascending-by-free sort looks up slice positions instead of the node ids stored at those positions)
			s.r.Tag(nvTagHint)
		}
		if !nvIsPrefix(hint) {
			s.r.Probe("hint-not-prefix")
		}
	}

	// ---- the state before the call, from the model only
	cnt := s.cpuCounts(op.N)
	free := s.numaFree(op.N, t)
	freeCPUs := 0
	for c := 0; c < t.numCPUs(); c++ {
		if !t.reserved(c) && cnt[c] < t.Max {
			freeCPUs++
		}
	}

	pa, status := s.rm.Allocate(nd.obj, pod.obj, opts)
	ok := status.IsSuccess()
	s.r.OracleEval()
	if ok && pa == nil {
		s.r.Fail("allocate", "nil-result", "Allocate(%s on %s) succeeded without an allocation", op.P, op.N)
	}
	if ok {
		s.r.Event("allocate %s on %s hint=%v ok -> %s", op.P, op.N, hint, nvFromReal(pa))
	} else {
		s.r.Event("allocate %s on %s hint=%v failed", op.P, op.N, hint)
	}
	desc := fmt.Sprintf("pod %s{bind=%v pol=%s required=%v excl=%s %s} node %s{%dx%dx%dx%d lay=%d res=%v max=%d} hint=%v",
		op.P, pod.spec.Bind, pod.spec.Pol, pod.spec.Reqd, pod.spec.Excl, nvFmt(pod.spec.Req), op.N, t.S, t.NPS, t.C, t.T, t.Lay, t.Res, t.Max, hint)

	if !ok {
		if pod.spec.Bind {
			s.r.Probe("alloc-cpu-fail")
			if hint == nil && !pod.spec.Reqd && freeCPUs >= need {
				s.r.Probe("cpu-fail-with-enough-free(not-claimed)")
			}
		}
		if hint != nil {
			s.r.Probe("alloc-numa-fail")
		}
		if hint != nil && !pod.spec.Bind {
			// COMPLETENESS (freely divisible resources, no CPU binding): the hinted nodes together have enough free of
			// everything that is asked for => must succeed. A dimension the node does not report per NUMA node has
			// nothing free, so a request naming one carries no claim.
			enough := true
			var detail []string
			for _, d := range nvSortedKeys(pod.spec.Req) {
				var sum int64
				for _, n := range hint {
					sum += free[n][d]
				}
				detail = append(detail, fmt.Sprintf("%s: want %d, hinted nodes have %d", d, pod.spec.Req[d], sum))
				if sum < pod.spec.Req[d] {
					enough = false
				}
			}
			if enough {
				var fr []string
				for _, n := range hint {
					fr = append(fr, fmt.Sprintf("n%d{%s}", n, nvFmt(free[n])))
				}
				// the class of the failing call is part of the signature: only multi-node hints other than {0,1}
				// belong to the recorded finding
				class := "hint-single-or-01"
				if len(hint) >= 3 || (len(hint) == 2 && !nvIsPrefix(hint)) {
					class = "hint-multi-node-not-01"
				}
				s.r.Fail("numa-complete", class, "Allocate failed (%s) although the hinted NUMA nodes together have enough free: %s; free %s; %s",
					status.Message(), strings.Join(detail, "; "), strings.Join(fr, " "), desc)
			}
			s.r.Probe("numa-fail-justified")
		}
		return true
	}

	got := nvFromReal(pa)
	s.r.Sample("allocate %s -> %s", desc, got)

	// ---- CPU set oracles
	if !pod.spec.Bind {
		if len(got.cpus) != 0 {
			s.r.Fail("cpu-unrequested", "", "pod without CPU binding got CPUs %v; %s", got.cpus, desc)
		}
	} else {
		s.r.Probe("alloc-cpu-ok")
		if len(got.cpus) != need {
			s.r.Fail("cpu-count", nvPolSig(pod.spec), "asked for %d CPUs, got %d (%v); %s", need, len(got.cpus), got.cpus, desc)
		}
		shared := false
		for _, c := range got.cpus {
			if _, ok := t.pos(c); !ok {
				s.r.Fail("cpu-not-free", "unknown-cpu", "CPU %d is not in the topology; %s", c, desc)
			}
			if t.reserved(c) {
				s.r.Fail("cpu-not-free", "reserved", "CPU %d is reserved; got %v; %s", c, got.cpus, desc)
			}
			if cnt[c] >= t.Max {
				s.r.Fail("cpu-not-free", "refcount", "CPU %d was already held by %d pods (MaxRefCount %d); got %v; %s", c, cnt[c], t.Max, got.cpus, desc)
			}
			if cnt[c] > 0 {
				shared = true
			}
		}
		if shared {
			s.r.Probe("cpu-shared-within-maxrefcount")
		}
		if need == freeCPUs {
			s.r.Probe("alloc-takes-all-free-cpus")
		}
		if pod.spec.Reqd {
			perCore := map[int]int{}
			for _, c := range got.cpus {
				p, _ := t.pos(c)
				perCore[p.core]++
			}
			switch pod.spec.Pol {
			case string(apiext.CPUBindPolicyFullPCPUs):
				for core, k := range perCore {
					if k != t.T {
						s.r.Fail("policy", "fullpcpus", "required FullPCPUs reported satisfied but core %d contributes %d of its %d CPUs: %v; %s", core, k, t.T, got.cpus, desc)
					}
				}
				s.r.Probe("required-fullpcpus-verified")
			case string(apiext.CPUBindPolicySpreadByPCPUs):
				for core, k := range perCore {
					if k != 1 {
						s.r.Fail("policy", "spreadbypcpus", "required SpreadByPCPUs reported satisfied but core %d contributes %d CPUs: %v; %s", core, k, got.cpus, desc)
					}
				}
				s.r.Probe("required-spread-verified")
			}
		}
	}

	// ---- NUMA-level oracles
	if hint == nil {
		if len(got.numa) != 0 {
			s.r.Fail("numa-unrequested", "", "allocation without a NUMA hint carries NUMA amounts %s; %s", got, desc)
		}
	} else {
		s.r.Probe("alloc-numa-ok")
		if pod.spec.Bind {
			s.r.Probe("alloc-cpu+numa-ok")
		}
		inHint := map[int]bool{}
		for _, n := range hint {
			inHint[n] = true
		}
		sum := map[string]int64{}
		for _, n := range nvSortedInts(got.numa) {
			if !inHint[n] {
				s.r.Fail("numa-outside-hint", "", "NUMA node %d is not in the hint %v: %s; %s", n, hint, got, desc)
			}
			for _, d := range nvSortedKeys(got.numa[n]) {
				v := got.numa[n][d]
				if v < 0 {
					s.r.Fail("numa-negative", "", "negative amount %s=%d on NUMA node %d; %s", d, v, n, desc)
				}
				if v > free[n][d] {
					s.r.Fail("numa-over-free", nvDimSig(d), "NUMA node %d hands out %s=%d but had only %d free: %s; %s", n, d, v, free[n][d], got, desc)
				}
				sum[d] += v
			}
		}
		for _, d := range nvSortedKeys(pod.spec.Req) {
			want := pod.spec.Req[d]
			if !t.tracked(d) {
				want = 0 // not a NUMA-level resource on this node: nothing to hand out
			}
			if sum[d] != want {
				s.r.Fail("numa-sum", nvDimSig(d), "requested %s=%d, NUMA nodes hand out %d in total: %s; %s", d, want, sum[d], got, desc)
			}
		}
		for _, d := range nvSortedKeys(sum) {
			if _, asked := pod.spec.Req[d]; !asked {
				s.r.Fail("numa-sum", "unrequested-dim", "dimension %s was not requested: %s; %s", d, got, desc)
			}
		}
		if len(got.numa) > 1 {
			s.r.Probe("numa-split-over-several-nodes")
		}
	}

	if op.Abandon {
		// the cycle is given up after the allocation was computed (another plugin's Reserve failed): nothing was recorded
		s.r.Probe("cycle-abandoned")
		return true
	}
	s.cycle = &nvCycle{pod: pod, node: op.N, real: pa, alloc: got, bindFails: op.BindFails}
	delete(s.queue, op.P)
	s.assumed[op.P] = true
	return true
}

func nvPolSig(sp nvSpec) string {
	p := sp.Pol
	if p == "" {
		p = "none"
	}
	if sp.Reqd {
		return "required-" + p
	}
	return "preferred-" + p
}

func nvDimSig(d string) string {
	switch d {
	case nvCPU, nvMem:
		return d
	}
	return "extended"
}

func nvSortedKeys(m map[string]int64) []string {
	ks := make([]string, 0, len(m))
	for k := range m {
		ks = append(ks, k)
	}
	sort.Strings(ks)
	return ks
}

func nvSortedInts[V any](m map[int]V) []int {
	ks := make([]int, 0, len(m))
	for k := range m {
		ks = append(ks, k)
	}
	sort.Ints(ks)
	return ks
}

// opTake calls takePreferredCPUs directly with a set of preferred CPUs (what a
// matched reservation would hand back) on the node's current free set; nothing is recorded.
func (s *nvSim) opTake(op *nvOp) bool {
	nd := s.known[op.N]
	if nd == nil || op.CPUs < 1 {
		return false
	}
	t := nd.topo
	cnt := s.cpuCounts(op.N)
	avail, allocated, err := s.rm.GetAvailableCPUs(op.N)
	if err != nil {
		s.r.Fail("available", "error", "GetAvailableCPUs(%s): %v", op.N, err)
	}
	// the free set itself is checked against the model: not reserved, below the sharing limit
	for c := 0; c < t.numCPUs(); c++ {
		free := !t.reserved(c) && cnt[c] < t.Max
		if free != avail.Contains(c) {
			s.r.Fail("available", "free-set", "node %s CPU %d: reported free=%v, model free=%v (held by %d, MaxRefCount %d, reserved=%v)", op.N, c, avail.Contains(c), free, cnt[c], t.Max, t.reserved(c))
		}
	}
	if avail.Size() > 0 && avail.ToSlice()[avail.Size()-1] >= t.numCPUs() {
		s.r.Fail("available", "free-set", "node %s reports unknown CPUs free: %v", op.N, avail.ToSlice())
	}
	topo := s.tm.GetTopologyOptions(op.N).CPUTopology
	strategy := GetNUMAAllocateStrategy(nd.obj, s.rm.numaAllocateStrategy)
	got, err := takePreferredCPUs(topo, t.Max, avail, cpuset.NewCPUSet(op.Pref...), allocated, op.CPUs,
		schedulingconfig.CPUBindPolicy(op.Pol), schedulingconfig.CPUExclusivePolicy(op.Excl), strategy)
	s.r.OracleEval()
	s.r.Event("take %s n=%d pol=%s excl=%s pref=%v ok=%v %v", op.N, op.CPUs, op.Pol, op.Excl, op.Pref, err == nil, got.ToSlice())
	if err != nil {
		s.r.Probe("take-preferred-fail")
		return true
	}
	s.r.Probe("take-preferred-ok")
	if got.Size() != op.CPUs {
		s.r.Fail("cpu-count", "take-preferred", "takePreferredCPUs: asked for %d CPUs, got %d (%v); preferred %v, free %v", op.CPUs, got.Size(), got.ToSlice(), op.Pref, avail.ToSlice())
	}
	fromPref := 0
	for _, c := range got.ToSlice() {
		if t.reserved(c) {
			s.r.Fail("cpu-not-free", "reserved", "takePreferredCPUs took reserved CPU %d: %v", c, got.ToSlice())
		}
		if _, ok := t.pos(c); !ok || cnt[c] >= t.Max {
			s.r.Fail("cpu-not-free", "refcount", "takePreferredCPUs took CPU %d held by %d pods (MaxRefCount %d): %v", c, cnt[c], t.Max, got.ToSlice())
		}
		for _, pc := range op.Pref {
			if pc == c {
				fromPref++
			}
		}
	}
	if fromPref > 0 {
		s.r.Probe("take-preferred-used-preferred")
	}
	return true
}

// commit is the second half of Reserve: resourceManager.Update with the allocation.
func (s *nvSim) commit() {
	c := s.cycle
	s.cycle = nil
	if c.stepsIn > 0 {
		s.r.Probe("events-between-allocate-and-update")
	}
	s.rm.Update(c.node, c.real)
	if s.known[c.node] != nil {
		s.hold(c.node, c.pod.uid, c.alloc)
	} else {
		s.r.Probe("commit-without-topology")
	}
	if !s.schedNodes[c.node] {
		s.r.Probe("commit-after-node-delete")
		if s.known[c.node] != nil {
			s.r.Probe("commit-after-node-delete-topology-still-known")
		}
	}
	s.binds = append(s.binds, c)
	s.r.Event("commit %s on %s %s", c.pod.name, c.node, c.alloc)
}

// bindResult resolves one binding cycle: the bind API call succeeds (the pod
// object gets its node and the resource-status annotation) or Unreserve runs.
func (s *nvSim) bindResult(i int) {
	c := s.binds[i]
	s.binds = append(s.binds[:i:i], s.binds[i+1:]...)
	cur := s.pods[c.pod.name]
	if c.bindFails || cur == nil || cur.node != "" || s.nodes[c.node] == nil {
		// Plugin.Unreserve
		s.rm.Release(c.node, types.UID(c.pod.uid))
		s.unhold(c.node, c.pod.uid)
		delete(s.assumed, c.pod.name)
		switch {
		case cur == nil:
			s.r.Probe("bind-after-pod-delete")
		case s.nodes[c.node] == nil:
			s.r.Probe("bind-after-node-delete")
		default:
			s.r.Probe("bind-failed-unreserve")
			s.queue[c.pod.name] = cur // back to the scheduling queue
		}
		s.r.Event("unreserve %s on %s", c.pod.name, c.node)
		return
	}
	nv := *cur
	nv.node, nv.alloc, nv.rv = c.node, c.alloc, s.bump()
	s.pods[c.pod.name] = s.mkPod(&nv)
	s.emit(nvEvent{typ: "pod", kind: "update", old: cur, new: s.pods[c.pod.name]})
	s.r.Event("bound %s on %s", c.pod.name, c.node)
}

// ---------------------------------------------------------------- ledger oracles

func (s *nvSim) realNodes() map[string]*NodeAllocation {
	s.rm.lock.Lock()
	defer s.rm.lock.Unlock()
	out := map[string]*NodeAllocation{}
	for k, v := range s.rm.nodeAllocations {
		out[k] = v
	}
	return out
}

// checkLedger: after every step the real ledger must equal the sum of the
// allocations of the pods the scheduler was told are live (event-level model).
func (s *nvSim) checkLedger(after string) {
	real := s.realNodes()
	names := map[string]bool{}
	for n := range real {
		names[n] = true
	}
	for n := range s.holders {
		names[n] = true
	}
	sorted := make([]string, 0, len(names))
	for n := range names {
		sorted = append(sorted, n)
	}
	sort.Strings(sorted)
	s.r.OracleEval()
	for _, node := range sorted {
		na := real[node]
		hs := s.holders[node]
		var pods map[types.UID]PodAllocation
		var cpus CPUDetails
		var res map[int]*NUMANodeResource
		if na != nil {
			pods, cpus, res = na.allocatedPods, na.allocatedCPUs, na.allocatedResources
		}
		// pods
		for uid, pa := range pods {
			a := hs[string(uid)]
			if a == nil {
				s.r.Fail("ledger", "ghost-pod", "after %s: node %s ledger holds pod %s (%s) that is not live", after, node, uid, nvFromReal(&pa))
			}
			if g := nvFromReal(&pa); g.String() != a.String() {
				s.r.Fail("ledger", "pod-allocation", "after %s: node %s pod %s recorded as %s, live allocation is %s", after, node, uid, g, a)
			}
		}
		for uid, a := range hs {
			if _, ok := pods[types.UID(uid)]; !ok {
				s.r.Fail("ledger", "lost-pod", "after %s: node %s ledger lost live pod %s (%s)", after, node, uid, a)
			}
		}
		// CPUs
		cnt := s.cpuCounts(node)
		if nd := s.nodes[node]; nd != nil && s.known[node] == nd {
			for _, c := range nvSortedInts(cnt) {
				if cnt[c] > nd.topo.Max {
					s.r.Fail("refcount-exceeds-max", "", "after %s: node %s CPU %d is held by %d live pods, MaxRefCount %d", after, node, c, cnt[c], nd.topo.Max)
				}
			}
		}
		for c, info := range cpus {
			if info.RefCount != cnt[c] {
				s.r.Fail("ledger", "cpu-refcount", "after %s: node %s CPU %d ref count %d, live pods holding it %d", after, node, c, info.RefCount, cnt[c])
			}
			if info.RefCount <= 0 {
				s.r.Fail("ledger", "cpu-refcount-zero-entry", "after %s: node %s CPU %d kept with ref count %d", after, node, c, info.RefCount)
			}
		}
		for c, k := range cnt {
			if _, ok := cpus[c]; !ok && k > 0 {
				s.r.Fail("ledger", "cpu-refcount", "after %s: node %s CPU %d not in the ledger, live pods holding it %d", after, node, c, k)
			}
		}
		// per-NUMA amounts
		used := s.numaUsed(node)
		for n, nr := range res {
			for d, q := range nr.Resources {
				if v := nvVal(string(d), q); v != used[n][string(d)] {
					s.r.Fail("ledger", "numa-amount", "after %s: node %s NUMA %d %s ledger %d, sum over live pods %d", after, node, n, d, v, used[n][string(d)])
				}
			}
		}
		for n, m := range used {
			for d, v := range m {
				var have int64
				if res[n] != nil {
					if q, ok := res[n].Resources[corev1.ResourceName(d)]; ok {
						have = nvVal(d, q)
					}
				}
				if have != v {
					s.r.Fail("ledger", "numa-amount", "after %s: node %s NUMA %d %s ledger %d, sum over live pods %d", after, node, n, d, have, v)
				}
			}
		}
	}
}

func (s *nvSim) quiescent() bool {
	return s.cycle == nil && len(s.binds) == 0 && len(s.streams["pod"]) == 0 && len(s.streams["nrt"]) == 0 && len(s.streams["node"]) == 0
}

// checkQuiescent: with every event delivered and no cycle in flight, the real
// ledger must equal the sum over the live pods in the API server (bound, not
// terminated, with a persisted allocation), and no CPU may exceed MaxRefCount.
func (s *nvSim) checkQuiescent() {
	s.r.OracleEval()
	real := s.realNodes()
	names := make([]string, 0, len(real))
	for n := range real {
		names = append(names, n)
	}
	for n := range s.nodes {
		if real[n] == nil {
			names = append(names, n)
		}
	}
	sort.Strings(names)
	var state []string
	for _, node := range names {
		cnt := map[int]int{}
		used := map[int]map[string]int64{}
		nd := s.nodes[node]
		if nd != nil {
			for _, pn := range nvSortedPodNames(s.pods) {
				p := s.pods[pn]
				if p.node != node || p.term || p.alloc.empty() {
					continue
				}
				for _, c := range p.alloc.cpus {
					cnt[c]++
				}
				for n, m := range p.alloc.numa {
					if used[n] == nil {
						used[n] = map[string]int64{}
					}
					for d, v := range m {
						used[n][d] += v
					}
				}
			}
		}
		na := real[node]
		var cpus CPUDetails
		var res map[int]*NUMANodeResource
		if na != nil {
			cpus, res = na.allocatedCPUs, na.allocatedResources
		}
		for c, info := range cpus {
			if info.RefCount != cnt[c] {
				s.r.Fail("ledger-live", "cpu-refcount", "quiescent: node %s CPU %d ref count %d, live API pods holding it %d", node, c, info.RefCount, cnt[c])
			}
		}
		for c, k := range cnt {
			if cpus[c].RefCount != k {
				s.r.Fail("ledger-live", "cpu-refcount", "quiescent: node %s CPU %d ref count %d, live API pods holding it %d", node, c, cpus[c].RefCount, k)
			}
			if nd != nil && k > nd.topo.Max {
				s.r.Fail("refcount-exceeds-max", "", "quiescent: node %s CPU %d is held by %d live pods, MaxRefCount %d", node, c, k, nd.topo.Max)
			}
		}
		for n, nr := range res {
			for d, q := range nr.Resources {
				if v := nvVal(string(d), q); v != used[n][string(d)] {
					s.r.Fail("ledger-live", "numa-amount", "quiescent: node %s NUMA %d %s ledger %d, sum over live API pods %d", node, n, d, v, used[n][string(d)])
				}
			}
		}
		for n, m := range used {
			for d, v := range m {
				var have int64
				if res[n] != nil {
					if q, ok := res[n].Resources[corev1.ResourceName(d)]; ok {
						have = nvVal(d, q)
					}
				}
				if have != v {
					s.r.Fail("ledger-live", "numa-amount", "quiescent: node %s NUMA %d %s ledger %d, sum over live API pods %d", node, n, d, have, v)
				}
				if nd != nil {
					if c := nd.topo.capacity(n)[d]; v > c {
						s.r.Fail("numa-over-capacity", nvDimSig(d), "quiescent: node %s NUMA %d %s: live pods hold %d of capacity %d", node, n, d, v, c)
					}
				}
			}
		}
		cs := nvSortedInts(cnt)
		var sb strings.Builder
		for _, c := range cs {
			fmt.Fprintf(&sb, "%d:%d ", c, cnt[c])
		}
		for _, n := range nvSortedInts(used) {
			fmt.Fprintf(&sb, "n%d{%s} ", n, nvFmt(used[n]))
		}
		state = append(state, node+"["+sb.String()+"]")
	}
	s.r.Event("quiescent %s", strings.Join(state, " "))
}

func nvSortedPodNames(m map[string]*nvPodVer) []string {
	ks := make([]string, 0, len(m))
	for k := range m {
		ks = append(ks, k)
	}
	sort.Strings(ks)
	return ks
}

// checkEmpty: after everything was released the ledger is empty.
func (s *nvSim) checkEmpty() {
	s.r.OracleEval()
	real := s.realNodes()
	names := make([]string, 0, len(real))
	for n := range real {
		names = append(names, n)
	}
	sort.Strings(names)
	for _, node := range names {
		na := real[node]
		if len(na.allocatedPods) != 0 {
			s.r.Fail("release-empty", "pods", "everything released, node %s still records %d pods", node, len(na.allocatedPods))
		}
		if len(na.allocatedCPUs) != 0 {
			s.r.Fail("release-empty", "cpus", "everything released, node %s still records CPUs %v", node, na.allocatedCPUs.CPUs().ToSlice())
		}
		for n, nr := range na.allocatedResources {
			for d, q := range nr.Resources {
				if !q.IsZero() {
					s.r.Fail("release-empty", "numa-amount", "everything released, node %s NUMA %d still records %s=%s", node, n, d, q.String())
				}
			}
		}
		for n, set := range na.sharedNode {
			if len(set) != 0 {
				s.r.Fail("release-empty", "numa-status", "everything released, node %s NUMA %d still marked shared by %v", node, n, set.List())
			}
		}
		for n, set := range na.singleNUMANode {
			if len(set) != 0 {
				s.r.Fail("release-empty", "numa-status", "everything released, node %s NUMA %d still marked single by %v", node, n, set.List())
			}
		}
	}
	s.r.Probe("final-empty-check")
}

// ---------------------------------------------------------------- execution

func (nvEngine) Execute(r *sim.Run) {
	s := &nvSim{r: r, nodes: map[string]*nvNode{}, pods: map[string]*nvPodVer{}, streams: map[string][]nvEvent{},
		known: map[string]*nvNode{}, schedNodes: map[string]bool{}, queue: map[string]*nvPodVer{}, assumed: map[string]bool{}, holders: map[string]map[string]*nvAlloc{}}
	r.Plan.GetCfg(&s.cfg)
	var ops []nvOp
	r.Plan.GetOps(&ops)
	s.tm = NewTopologyOptionsManager()
	s.rm = &resourceManager{
		numaAllocateStrategy:   schedulingconfig.NUMAAllocateStrategy(s.cfg.Strategy),
		topologyOptionsManager: s.tm,
		nodeAllocations:        map[string]*NodeAllocation{},
	}
	s.h = &podEventHandler{resourceManager: s.rm}
	r.Sample("cfg %+v", s.cfg)

	next := 0
	for {
		// who can move next; order chosen so that tape value 0 = "finish what is in flight before the next operation"
		type choice struct {
			kind string
			i    int
		}
		var cs []choice
		if s.cycle != nil {
			cs = append(cs, choice{"commit", 0})
		}
		for _, typ := range []string{"nrt", "pod", "node"} {
			if len(s.streams[typ]) > 0 {
				cs = append(cs, choice{typ, 0})
			}
		}
		for i := range s.binds {
			cs = append(cs, choice{"bind", i})
		}
		if next < len(ops) && !(ops[next].K == "sched" && s.cycle != nil) {
			cs = append(cs, choice{"op", 0})
		}
		if len(cs) == 0 {
			break
		}
		c := cs[r.Choose(len(cs))]
		s.steps++
		after := c.kind
		switch c.kind {
		case "commit":
			s.commit()
		case "nrt", "pod", "node":
			after = "delivery on the " + c.kind + " stream"
			s.deliver(c.kind)
		case "bind":
			s.bindResult(c.i)
		case "op":
			op := &ops[next]
			next++
			after = op.K + " " + op.P + op.N
			if s.cycle != nil {
				s.cycle.stepsIn++
			}
			ok := false
			switch op.K {
			case "node_add":
				ok = s.opNodeAdd(op)
			case "node_del":
				ok = s.opNodeDel(op)
			case "pod_create":
				ok = s.opPodCreate(op)
			case "pod_delete":
				ok = s.opPodDelete(op)
			case "pod_term":
				ok = s.opPodTerm(op)
			case "resync":
				ok = s.opResync(op)
			case "sched":
				ok = s.opSched(op)
			case "take":
				ok = s.opTake(op)
			}
			if ok {
				r.OpDone()
			} else {
				r.OpSkipped()
			}
		}
		s.checkLedger(after)
		if s.quiescent() {
			s.checkQuiescent()
		}
	}
	if !s.quiescent() {
		r.HarnessFail("loop ended while work is in flight")
	}
	// release everything: every pod is deleted and every delete is delivered
	for _, pn := range nvSortedPodNames(s.pods) {
		s.opPodDelete(&nvOp{K: "pod_delete", P: pn})
	}
	for len(s.streams["pod"]) > 0 {
		s.deliver("pod")
		s.checkLedger("final delete")
	}
	s.checkQuiescent()
	s.checkEmpty()
}

// ---------------------------------------------------------------- generation

func nvGenTopo(g *sim.Rng, thorough bool) *nvTopo {
	t := &nvTopo{S: g.PickInt(1, 1, 2), NPS: g.PickInt(1, 2, 2, 4), C: g.PickInt(1, 2, 2, 3, 4, 4, 5, 6, 7, 8), T: g.PickInt(1, 2, 2)}
	if !thorough && t.numCPUs() > 48 && g.Bool(0.7) {
		t.C = g.PickInt(1, 2, 3)
	}
	if t.T == 2 && g.Bool(0.4) {
		t.Lay = 1
	}
	t.Max = g.PickInt(1, 1, 1, 1, 2, 2, 3)
	if g.Bool(0.4) {
		k := g.Range(1, 4)
		if k > t.numCPUs()/2 {
			k = t.numCPUs() / 2
		}
		seen := map[int]bool{}
		for i := 0; i < k; i++ {
			c := g.Intn(t.numCPUs())
			if g.Bool(0.5) {
				c = i // the first CPUs (typical kubelet reservation)
			}
			if !seen[c] {
				seen[c] = true
				t.Res = append(t.Res, c)
			}
		}
		sort.Ints(t.Res)
	}
	unit := g.PickI64(1, 1, 1<<20, 1<<30)
	for n := 0; n < t.numNodes(); n++ {
		m := g.I64n(17) * unit
		if unit > 1 && g.Bool(0.3) {
			m += g.I64n(unit)
		}
		t.Mem = append(t.Mem, m)
	}
	if g.Bool(0.5) {
		for n := 0; n < t.numNodes(); n++ {
			switch g.Intn(5) {
			case 0:
				t.Ext = append(t.Ext, -1)
			case 1:
				t.Ext = append(t.Ext, 0)
			default:
				t.Ext = append(t.Ext, 1+g.I64n(8))
			}
		}
	}
	t.Strat = g.Pick("", "", "", "MostAllocated", "LeastAllocated", "DistributeEvenly")
	return t
}

func nvGenHint(g *sim.Rng, t *nvTopo) []int {
	k := t.numNodes()
	var h []int
	switch {
	case g.Bool(0.15): // every node
		for n := 0; n < k; n++ {
			h = append(h, n)
		}
	case g.Bool(0.2): // one node
		h = []int{g.Intn(k)}
	default:
		for n := 0; n < k; n++ {
			if g.Bool(0.5) {
				h = append(h, n)
			}
		}
		if len(h) == 0 {
			h = []int{g.Intn(k)}
		}
	}
	return h
}

// nvGenSpec draws a pod; when hint != nil the amounts are scaled to what the hinted nodes can hold.
func nvGenSpec(g *sim.Rng, t *nvTopo, hint []int) nvOp {
	op := nvOp{K: "pod_create", Req: map[string]int64{}}
	nodes := hint
	if nodes == nil {
		for n := 0; n < t.numNodes(); n++ {
			nodes = append(nodes, n)
		}
	}
	capSum := map[string]int64{}
	for _, n := range nodes {
		for d, v := range t.capacity(n) {
			capSum[d] += v
		}
	}
	amount := func(total int64) int64 {
		if total <= 0 {
			return 1 + g.I64n(3)
		}
		switch g.Intn(8) {
		case 0:
			return total // exact fit
		case 1:
			return total + 1 + g.I64n(total/4+1) // too much
		case 2, 3:
			return 1 + g.I64n(total/4+1)
		}
		return 1 + g.I64n(total)
	}
	op.Bind = hint == nil || g.Bool(0.4)
	if op.Bind {
		total := int(capSum[nvCPU] / 1000)
		if total < 1 {
			total = 1
		}
		var n int
		switch g.Intn(10) {
		case 0:
			n = 1
		case 1:
			n = t.T
		case 2, 3:
			n = t.T * g.Range(1, (total+t.T-1)/t.T)
		case 4:
			n = total
		case 5:
			n = total + 1
		case 6, 7:
			n = g.Range(1, total)
		default:
			n = g.Range(1, min(total, 8))
		}
		op.Req[nvCPU] = int64(n) * 1000
		op.Pol = g.Pick("FullPCPUs", "FullPCPUs", "FullPCPUs", "FullPCPUs", "SpreadByPCPUs", "SpreadByPCPUs", "SpreadByPCPUs", "SpreadByPCPUs", "Default", "")
		op.Reqd = (op.Pol == "FullPCPUs" || op.Pol == "SpreadByPCPUs") && g.Bool(0.45)
		op.Excl = g.Pick("", "", "None", "PCPULevel", "PCPULevel", "NUMANodeLevel", "NUMANodeLevel")
	} else {
		op.Req[nvCPU] = amount(capSum[nvCPU])
		if g.Bool(0.3) {
			op.Req[nvCPU] = (op.Req[nvCPU]/1000 + 1) * 1000
		}
	}
	if hint != nil || g.Bool(0.3) {
		if g.Bool(0.8) {
			op.Req[nvMem] = amount(capSum[nvMem])
		}
		if t.Ext != nil && g.Bool(0.5) {
			op.Req[nvExt] = amount(capSum[nvExt])
		}
		if g.Bool(0.06) {
			op.Req[nvUntracked] = 1 + g.I64n(4)
		}
	}
	return op
}

func nvGenPre(g *sim.Rng, t *nvTopo, names func() string) []nvPre {
	var out []nvPre
	cnt, used := map[int]int{}, map[int]map[string]int64{}
	k := g.Intn(5)
	for i := 0; i < k; i++ {
		pre := nvPre{P: names(), Excl: g.Pick("", "", "PCPULevel", "NUMANodeLevel")}
		mode := g.Intn(3) // 0 cpuset only, 1 NUMA amounts only, 2 both
		if mode != 1 {
			want := g.Range(1, min(6, t.numCPUs()))
			perNode := map[int]int{}
			for _, c := range g.Perm(t.numCPUs()) {
				if len(pre.CPUs) >= want {
					break
				}
				if t.reserved(c) || cnt[c] >= t.Max {
					continue
				}
				if cnt[c] > 0 && g.Bool(0.5) {
					continue
				}
				pre.CPUs = append(pre.CPUs, c)
				p, _ := t.pos(c)
				perNode[p.node]++
			}
			sort.Ints(pre.CPUs)
			if mode == 2 {
				for _, n := range nvSortedInts(perNode) {
					pre.NUMA = append(pre.NUMA, nvAmt{N: n, R: map[string]int64{nvCPU: int64(perNode[n]) * 1000}})
				}
			}
		} else {
			for n := 0; n < t.numNodes(); n++ {
				if !g.Bool(0.5) {
					continue
				}
				r := map[string]int64{}
				for d, c := range t.capacity(n) {
					left := c - used[n][d]
					if left > 0 && g.Bool(0.7) {
						r[d] = 1 + g.I64n(left)
					}
				}
				if len(r) > 0 {
					pre.NUMA = append(pre.NUMA, nvAmt{N: n, R: r})
				}
			}
		}
		if nvPreAlloc(t, &pre, cnt, used) != nil {
			out = append(out, pre)
		}
	}
	return out
}

func (nvEngine) Generate(p *sim.Plan, g *sim.Rng) {
	cfg := nvCfg{Strategy: g.Pick("MostAllocated", "LeastAllocated")}
	thorough := p.Tier == "thorough"
	nOps := g.Range(8, 40)
	if thorough {
		nOps = g.Range(8, 90)
	}
	var ops []nvOp
	nodes := map[string]*nvTopo{}
	nodeNames := []string{}
	var pods []string
	np := 0
	podName := func() string { np++; return fmt.Sprintf("p%d", np-1) }
	addNode := func(name string) {
		t := nvGenTopo(g, thorough)
		op := nvOp{K: "node_add", N: name, Topo: t}
		if g.Bool(0.5) {
			op.Pre = nvGenPre(g, t, podName)
			for _, pre := range op.Pre {
				pods = append(pods, pre.P)
			}
		}
		ops = append(ops, op)
		if nodes[name] == nil {
			nodeNames = append(nodeNames, name)
		}
		nodes[name] = t
	}
	liveNode := func() string {
		var c []string
		for _, n := range nodeNames {
			if nodes[n] != nil {
				c = append(c, n)
			}
		}
		if len(c) == 0 {
			return ""
		}
		return c[g.Intn(len(c))]
	}
	addNode("n0")
	if g.Bool(0.2) {
		addNode("n1")
	}
	numaHeavy := g.Bool(0.5) // this run leans towards NUMA-level requests
	schedOp := func(pod, node string, hint []int) nvOp {
		return nvOp{K: "sched", P: pod, N: node, Hint: hint, Abandon: g.Bool(0.1), BindFails: g.Bool(0.15)}
	}
	for len(ops) < nOps {
		x := g.Intn(100)
		switch {
		case x < 45:
			n := liveNode()
			if n == "" {
				addNode("n0")
				continue
			}
			t := nodes[n]
			var hint []int
			pn := 0.35
			if numaHeavy {
				pn = 0.75
			}
			if g.Bool(pn) {
				hint = nvGenHint(g, t)
			}
			op := nvGenSpec(g, t, hint)
			op.P = podName()
			pods = append(pods, op.P)
			ops = append(ops, op)
			if g.Bool(0.9) {
				ops = append(ops, schedOp(op.P, n, hint))
			}
		case x < 57:
			// another attempt for some pod (only runs if the pod is still waiting), possibly with another hint
			if len(pods) == 0 {
				continue
			}
			n := liveNode()
			if n == "" {
				continue
			}
			var hint []int
			if g.Bool(0.6) {
				hint = nvGenHint(g, nodes[n])
			}
			ops = append(ops, schedOp(pods[g.Intn(len(pods))], n, hint))
		case x < 72:
			if len(pods) == 0 {
				continue
			}
			ops = append(ops, nvOp{K: "pod_delete", P: pods[g.Intn(len(pods))]})
		case x < 80:
			if len(pods) == 0 {
				continue
			}
			ops = append(ops, nvOp{K: "pod_term", P: pods[g.Intn(len(pods))]})
		case x < 88:
			if len(pods) == 0 {
				continue
			}
			ops = append(ops, nvOp{K: "resync", P: pods[g.Intn(len(pods))]})
		case x < 92:
			n := liveNode()
			if n == "" {
				continue
			}
			t := nodes[n]
			op := nvOp{K: "take", N: n, CPUs: g.Range(1, max(1, min(t.numCPUs(), 12))), Pol: g.Pick("FullPCPUs", "SpreadByPCPUs", "Default", ""),
				Excl: g.Pick("", "None", "PCPULevel", "NUMANodeLevel")}
			for _, c := range g.Perm(t.numCPUs()) {
				if len(op.Pref) >= g.Range(1, 6) {
					break
				}
				op.Pref = append(op.Pref, c)
			}
			sort.Ints(op.Pref)
			ops = append(ops, op)
		case x < 96:
			n := liveNode()
			if n == "" {
				continue
			}
			ops = append(ops, nvOp{K: "node_del", N: n})
			nodes[n] = nil
		default:
			name := fmt.Sprintf("n%d", g.Intn(3))
			if nodes[name] != nil {
				continue
			}
			addNode(name)
		}
	}
	p.SetCfg(cfg)
	p.SetOps(ops)
}
