//go:build verif

package noderesource

// Engine `noderes` (C09), part 4 of 4: oracles. Everything here is written from the statement of
// C09 in integer arithmetic (milli-CPU, bytes) over the inputs the reconcile READ (captured by the
// client wrapper); nothing calls the code under test to obtain an expected value. The only use of
// real code is the monotonicity re-evaluation, where the real Calculate is compared with itself.

import (
	"encoding/json"
	"fmt"
	"sort"
	"time"

	topologyv1alpha1 "github.com/k8stopologyawareschedwg/noderesourcetopology-api/pkg/apis/topology/v1alpha1"
	corev1 "k8s.io/api/core/v1"
	"k8s.io/apimachinery/pkg/api/resource"
	"sigs.k8s.io/controller-runtime/pkg/reconcile"

	"github.com/koordinator-sh/koordinator/apis/configuration"
	"github.com/koordinator-sh/koordinator/apis/extension"
	slov1alpha1 "github.com/koordinator-sh/koordinator/apis/slo/v1alpha1"
	"github.com/koordinator-sh/koordinator/pkg/slo-controller/noderesource/framework"
	"github.com/koordinator-sh/koordinator/pkg/slo-controller/noderesource/plugins/batchresource"
	"github.com/koordinator-sh/koordinator/pkg/slo-controller/noderesource/plugins/midresource"
	"github.com/koordinator-sh/koordinator/pkg/util/sloconfig"
)

type nrRes struct{ cpu, mem int64 } // milli-cpu, bytes

var nrExtNames = []corev1.ResourceName{extension.BatchCPU, extension.BatchMemory, extension.MidCPU, extension.MidMemory}

// nrShort is the resource name without its domain (signatures must not contain '/').
func nrShort(rn string) string {
	for i := len(rn) - 1; i >= 0; i-- {
		if rn[i] == '/' {
			return rn[i+1:]
		}
	}
	return rn
}

// ---------------------------------------------------------------- effective strategy (harness model of the layering)

type nrEff struct {
	enabled                  bool
	cpuPct, memPct           int64
	cpuPol, memPol           string
	degradeMin               int64
	diff                     float64
	batchCPUPct, batchMemPct *int64
	midCPUPct, midMemPct     int64
}

func nrOverlay(b, o *nrStrategy) {
	if o.Enable != nil {
		b.Enable = o.Enable
	}
	if o.CPUReclaim != nil {
		b.CPUReclaim = o.CPUReclaim
	}
	if o.MemReclaim != nil {
		b.MemReclaim = o.MemReclaim
	}
	if o.CPUPolicy != nil {
		b.CPUPolicy = o.CPUPolicy
	}
	if o.MemPolicy != nil {
		b.MemPolicy = o.MemPolicy
	}
	if o.Degrade != nil {
		b.Degrade = o.Degrade
	}
	if o.UpdateSec != nil {
		b.UpdateSec = o.UpdateSec
	}
	if o.Diff != nil {
		b.Diff = o.Diff
	}
	if o.BatchCPUPct != nil {
		b.BatchCPUPct = o.BatchCPUPct
	}
	if o.BatchMemPct != nil {
		b.BatchMemPct = o.BatchMemPct
	}
	if o.MidMode != nil {
		b.MidMode = o.MidMode
	}
	if o.MidCPUPct != nil {
		b.MidCPUPct = o.MidCPUPct
	}
	if o.MidMemPct != nil {
		b.MidMemPct = o.MidMemPct
	}
	if o.MidUnalloc != nil {
		b.MidUnalloc = o.MidUnalloc
	}
	if o.MidStaticCPU != nil {
		b.MidStaticCPU = o.MidStaticCPU
	}
	if o.MidStaticMem != nil {
		b.MidStaticMem = o.MidStaticMem
	}
}

// effective layers cluster strategy < first matching node config < node annotation < node ratio labels.
// ok=false: the controller's config cache is not available (it must not act at all).
func (s *nrSim) effective(node *corev1.Node) (nrEff, bool) {
	if !s.mcfg.avail {
		return nrEff{}, false
	}
	if s.mcfg.cm == nil {
		return nrEff{}, true // built-in default: colocation disabled
	}
	m := s.mcfg.cm.Cluster
	clusterOn := m.Enable != nil && *m.Enable
	for i := range s.mcfg.cm.NodeConfigs {
		nc := &s.mcfg.cm.NodeConfigs[i]
		if node.Labels["pool"] == nc.Pool {
			nrOverlay(&m, &nc.Strategy)
			break
		}
	}
	if a, ok := node.Annotations[extension.AnnotationNodeColocationStrategy]; ok {
		var o nrStrategy
		if json.Unmarshal([]byte(a), &o) == nil {
			nrOverlay(&m, &o)
		}
	}
	if v, ok := nrRatioPct[node.Labels[extension.LabelCPUReclaimRatio]]; ok {
		m.CPUReclaim = &v
	}
	if v, ok := nrRatioPct[node.Labels[extension.LabelMemoryReclaimRatio]]; ok {
		m.MemReclaim = &v
	}
	e := nrEff{enabled: clusterOn && m.Enable != nil && *m.Enable, cpuPol: "usage", memPol: "usage", midCPUPct: 100, midMemPct: 100, degradeMin: 15, diff: 0.1}
	if m.CPUReclaim == nil || m.MemReclaim == nil || m.Degrade == nil || m.Diff == nil {
		s.r.HarnessFail("generated cluster strategy misses a mandatory field")
	}
	e.cpuPct, e.memPct, e.degradeMin, e.diff = *m.CPUReclaim, *m.MemReclaim, *m.Degrade, *m.Diff
	if m.CPUPolicy != nil && *m.CPUPolicy == "maxUsageRequest" { // cpu supports usage (default) and maxUsageRequest only
		e.cpuPol = *m.CPUPolicy
	}
	if m.MemPolicy != nil {
		e.memPol = *m.MemPolicy
	}
	e.batchCPUPct, e.batchMemPct = m.BatchCPUPct, m.BatchMemPct
	if m.MidCPUPct != nil {
		e.midCPUPct = *m.MidCPUPct
	}
	if m.MidMemPct != nil {
		e.midMemPct = *m.MidMemPct
	}
	return e, true
}

// ---------------------------------------------------------------- inputs as read

type nrConsumer struct {
	name      string
	kind      string // metric | nometric | dangling
	zones     []int  // valid NUMA ids the pod is bound to; nil = spread over all zones
	req, used nrRes
}

type nrInputs struct {
	eff                 nrEff
	now                 time.Time
	stale               bool // nothing measured within the degrade time (includes absent)
	absent              bool // the NodeMetric object did not exist when the reconcile looked it up
	capacity, reserved  nrRes
	kubeRes             nrRes  // the kubelet's part of the reservation (capacity - allocatable)
	annoPolicy          string // applyPolicy of the reservation annotation the reconcile read ("-" = no annotation)
	sysRaw, hostHP, sys nrRes
	cons                []nrConsumer
}

func nrRL(rl corev1.ResourceList) nrRes {
	return nrRes{rl.Cpu().MilliValue(), rl.Memory().Value()}
}

func nrMaxI(a, b int64) int64 {
	if a > b {
		return a
	}
	return b
}

func (s *nrSim) inputs(c *nrCapture, eff nrEff, zones int) *nrInputs {
	in := &nrInputs{eff: eff, now: c.calcNow}
	node := c.node
	in.capacity = nrRL(node.Status.Capacity)
	alloc := nrRL(node.Status.Allocatable)
	kube := nrRes{nrMax0(in.capacity.cpu - alloc.cpu), nrMax0(in.capacity.mem - alloc.mem)}
	var anno nrRes
	in.kubeRes, in.annoPolicy = kube, "-"
	if a := node.Annotations[extension.AnnotationNodeReservation]; a != "" {
		var nr extension.NodeReservation
		if json.Unmarshal([]byte(a), &nr) == nil {
			// applyPolicy is deliberately not looked at: it says how the reserved CPUs are exposed (trim the schedulable
			// amount or leave that to the kubelet), not how much is reserved; reserved amounts are never promised
			in.annoPolicy = string(nr.ApplyPolicy)
			anno = nrRL(nr.Resources)
			if nr.ReservedCPUs != "" {
				var lo, hi int64
				if n, _ := fmt.Sscanf(nr.ReservedCPUs, "%d-%d", &lo, &hi); n == 2 {
					anno.cpu = (hi - lo + 1) * 1000
				} else {
					anno.cpu = 1000
				}
			}
		}
	}
	// node reservation: the kubelet's (capacity - allocatable) or the koordinator annotation, whichever is larger
	in.reserved = nrRes{nrMaxI(kube.cpu, anno.cpu), nrMaxI(kube.mem, anno.mem)}
	m := c.metric
	in.absent = m == nil
	in.stale = m == nil || m.Status.UpdateTime == nil || in.now.After(m.Status.UpdateTime.Add(time.Duration(eff.degradeMin)*time.Minute))
	if m == nil || m.Status.NodeMetric == nil {
		return in
	}
	in.sysRaw = nrRL(m.Status.NodeMetric.SystemUsage.ResourceList)
	for _, ha := range m.Status.HostApplicationMetric {
		if ha.Priority == extension.PriorityProd || ha.Priority == extension.PriorityMid {
			u := nrRL(ha.Usage.ResourceList)
			in.hostHP.cpu, in.hostHP.mem = in.hostHP.cpu+u.cpu, in.hostHP.mem+u.mem
		}
	}
	in.sys = nrRes{in.sysRaw.cpu + in.hostHP.cpu, in.sysRaw.mem + in.hostHP.mem}
	metrics := map[string]*slov1alpha1.PodMetricInfo{}
	var mnames []string
	for _, pm := range m.Status.PodsMetric {
		metrics[pm.Name] = pm
		mnames = append(mnames, pm.Name)
	}
	sort.Strings(mnames)
	matched := map[string]bool{}
	if c.pods != nil {
		for i := range c.pods.Items {
			p := &c.pods.Items[i]
			if p.Status.Phase != corev1.PodRunning && p.Status.Phase != corev1.PodPending {
				continue
			}
			pm := s.pods[p.Name]
			if pm == nil {
				s.r.HarnessFail("listed pod %s unknown to the model", p.Name)
			}
			mi := metrics[p.Name]
			if mi != nil {
				matched[p.Name] = true
			}
			if !nrPodHP(&pm.spec) {
				continue
			}
			con := nrConsumer{name: p.Name, req: nrPodReq(&pm.spec)}
			for _, z := range pm.spec.NUMA {
				if z >= 0 && z < zones {
					con.zones = append(con.zones, z)
				}
			}
			if mi != nil {
				con.kind, con.used = "metric", nrRL(mi.PodUsage.ResourceList)
			} else {
				con.kind, con.used = "nometric", con.req // not reported yet: charged at its request
			}
			in.cons = append(in.cons, con)
		}
	}
	for _, name := range mnames {
		mi := metrics[name]
		if matched[name] || mi.Priority == extension.PriorityBatch || mi.Priority == extension.PriorityFree {
			continue
		}
		in.cons = append(in.cons, nrConsumer{name: name, kind: "dangling", used: nrRL(mi.PodUsage.ResourceList)})
	}
	return in
}

func nrTerm(c *nrConsumer, pol string, cpu bool) int64 {
	req, used := c.req.mem, c.used.mem
	if cpu {
		req, used = c.req.cpu, c.used.cpu
	}
	switch pol {
	case "request":
		return req
	case "maxUsageRequest":
		return nrMaxI(req, used)
	}
	return used
}

type nrBound struct {
	capv, margin, sysOrRes, hp         int64
	noMetric, dangling, host, sysExtra int64
	annoExtra                          int64 // what the reservation annotation adds over max(system usage, kubelet reservation)
	bound                              int64
	pol                                string
	pct                                *int64
}

func (in *nrInputs) nodeBound(cpu bool) nrBound {
	b := nrBound{}
	var reclaim, sys, res, host, kube int64
	if cpu {
		b.capv, reclaim, sys, res, host, b.pol, b.pct = in.capacity.cpu, in.eff.cpuPct, in.sys.cpu, in.reserved.cpu, in.hostHP.cpu, in.eff.cpuPol, in.eff.batchCPUPct
		kube = in.kubeRes.cpu
	} else {
		b.capv, reclaim, sys, res, host, b.pol, b.pct = in.capacity.mem, in.eff.memPct, in.sys.mem, in.reserved.mem, in.hostHP.mem, in.eff.memPol, in.eff.batchMemPct
		kube = in.kubeRes.mem
	}
	b.margin = b.capv * (100 - reclaim) / 100
	b.sysOrRes = nrMaxI(sys, res)
	b.annoExtra = b.sysOrRes - nrMaxI(sys, kube)
	b.host = b.sysOrRes - nrMaxI(sys-host, res)
	b.sysExtra = b.sysOrRes - res
	for i := range in.cons {
		t := nrTerm(&in.cons[i], b.pol, cpu)
		b.hp += t
		switch in.cons[i].kind {
		case "nometric":
			b.noMetric += t
		case "dangling":
			b.dangling += t
		}
	}
	b.bound = b.capv - b.margin - b.sysOrRes - b.hp
	return b
}

func nrFits(v, bound int64) bool { return v <= nrMax0(bound)+1 }

// classify names the consumption term whose omission explains the excess (for the violation signature): first a term
// whose omission reproduces the value exactly (up to the rounding unit), then any term large enough.
func (b *nrBound) classify(v, slack int64) string {
	cands := []struct {
		name string
		term int64
	}{{"pod-without-metric-not-charged", b.noMetric}, {"dangling-metric-not-charged", b.dangling}, {"system-usage-not-charged", b.sysExtra},
		{"host-app-not-charged", b.host}, {"reservation-annotation-not-charged", b.annoExtra}, {"margin-not-charged", b.margin}}
	for _, c := range cands {
		if d := v - nrMax0(b.bound+c.term); c.term > 0 && d >= -1 && d <= 1 {
			return c.name
		}
	}
	for _, c := range cands {
		if c.term > 0 && nrFits(v-slack, b.bound+c.term) {
			return c.name
		}
	}
	return "over"
}

func (b *nrBound) String() string {
	return fmt.Sprintf("capacity %d - margin %d - max(system usage, reservation) %d - high-priority term[%s] %d (of which pods without metric %d, dangling metrics %d) = %d",
		b.capv, b.margin, b.sysOrRes, b.pol, b.hp, b.noMetric, b.dangling, b.bound)
}

// ---------------------------------------------------------------- per-reconcile checks

// deferFail remembers the first violation of a recorded defect class; it is reported when the run ends.
func (s *nrSim) deferFail(oracle, detail, msg string) {
	s.r.Probe("recorded-defect-seen")
	if s.deferred == nil {
		s.deferred = &[3]string{oracle, detail, msg}
	}
}

func nrUnit(cpu bool) string {
	if cpu {
		return "cpu"
	}
	return "memory"
}

func (s *nrSim) checkReconcile(req reconcile.Request, c *nrCapture, err error) {
	r := s.r
	if c.node == nil {
		return // config unavailable, node not found or unreadable: nothing was computed
	}
	eff, ok := s.effective(c.node)
	if !ok {
		if len(c.nodeWrites) > 0 {
			r.Fail("write-without-config", "", "node %s written although the colocation config cache is unavailable", req.Name)
		}
		return
	}
	if !eff.enabled {
		r.Probe("reconcile-colocation-disabled")
		return
	}
	if !c.metricRead {
		return // a read failed before the NodeMetric was looked up
	}
	zones := 0
	if c.nrt != nil {
		zones = len(c.nrt.Zones)
	}
	if c.pods == nil {
		// The reconcile ended after it had looked the NodeMetric up and before it listed the pods. With an error it is
		// retried (no verdict). Without one the reconciler is done with the node for now: whatever it saw published
		// stays promised, and that is only acceptable while measurements younger than the degrade time exist. (The
		// bound itself cannot be evaluated without the pod list the reconcile would have read.)
		if err != nil {
			return
		}
		c.calcNow = time.Now()
		in := s.inputs(c, eff, zones)
		r.OracleEval()
		r.Probe("reconcile-ended-before-calculation")
		if in.stale && len(c.nodeWrites) == 0 && c.nodeGets == 1 && !c.nodeGone {
			s.checkNodeValues(req.Name, "kept", c.node, in)
		}
		return
	}
	in := s.inputs(c, eff, zones)
	r.OracleEval()
	if in.absent {
		r.Probe("reconcile-nodemetric-absent")
		if s.published(c.node) {
			r.Probe("reconcile-nodemetric-absent-amounts-published")
		}
	}
	// history classes of recorded defects (conditions on what the reconcile read, not on what it wrote)
	if !in.stale {
		for i := range in.cons {
			if con := &in.cons[i]; con.kind == "nometric" && ((eff.cpuPol == "maxUsageRequest" && con.req.cpu > 0) || (eff.memPol == "maxUsageRequest" && con.req.mem > 0)) {
				r.Tag("maxusagereq-pod-without-metric")
				s.tagNoMetric = true
			}
		}
		if eff.memPol == "request" && in.sys.mem > in.reserved.mem {
			r.Tag("mem-request-policy-system-usage-above-reservation")
			s.tagMemReq = true
		}
	}
	if in.stale {
		r.Probe("reconcile-metric-stale")
	}
	for _, w := range c.nodeWrites {
		s.checkNodeValues(req.Name, "write", w.new, in)
	}
	if !in.stale {
		for _, w := range c.nrtWrites {
			s.checkZones(req.Name, w, c, in)
		}
	}
	if err == nil && len(c.nodeWrites) == 0 && c.nodeGets == 1 && !c.nodeGone {
		// the reconciler decided that nothing needs to be written: what stays published may lag behind by its own
		// sync threshold only, and never survives a stale metric
		s.checkNodeValues(req.Name, "kept", c.node, in)
		r.Probe("reconcile-kept-published-value")
	}
	if !in.stale && c.metric != nil && c.metric.Status.NodeMetric != nil && r.Flip(0.1) {
		s.monotone(req.Name, c)
	}
}

// checkNodeValues checks the four extended resources of a node object that was written (mode write) or deliberately
// left as it is (mode kept) against the statement.
func (s *nrSim) checkNodeValues(name, mode string, node *corev1.Node, in *nrInputs) {
	r := s.r
	for _, rn := range nrExtNames {
		q, present := node.Status.Allocatable[rn]
		if !present {
			continue
		}
		v := q.Value()
		cpu := rn == extension.BatchCPU || rn == extension.MidCPU
		batch := rn == extension.BatchCPU || rn == extension.BatchMemory
		if v < 0 {
			r.Fail("negative", nrShort(string(rn)), "node %s %s: %s = %d", name, mode, rn, v)
		}
		if in.stale {
			how := map[string]string{"write": "written", "kept": "left published"}[mode]
			if v != 0 && in.absent {
				r.Fail("absent-not-reset", mode+"/"+nrShort(string(rn)), "node %s: the NodeMetric does not exist at the reconcile (now %s), no measurement backs any amount, but %s = %d is %s", name, in.now.Format(time.RFC3339), rn, v, how)
			}
			if v != 0 {
				r.Fail("stale-not-reset", mode+"/"+nrShort(string(rn)), "node %s: metric is stale at the reconcile (now %s, degrade %dm) but %s = %d is %s", name, in.now.Format(time.RFC3339), in.eff.degradeMin, rn, v, how)
			}
			continue
		}
		slack := int64(0)
		if mode == "kept" {
			// not re-published because |new - old| <= old * resourceDiffThreshold: old may exceed the bound by that much
			slack = int64(float64(v)*in.eff.diff) + 1
		}
		if !batch {
			capv, pct := in.capacity.mem, in.eff.midMemPct
			if cpu {
				capv, pct = in.capacity.cpu, in.eff.midCPUPct
			}
			if lim := capv * pct / 100; v > lim+slack {
				r.Fail("mid-cap", mode+"/"+nrUnit(cpu), "node %s: %s = %d exceeds %d%% of capacity %d = %d", name, rn, v, pct, capv, lim)
			}
			continue
		}
		b := in.nodeBound(cpu)
		if b.pct != nil {
			if lim := b.capv * *b.pct / 100; v > lim+slack {
				r.Fail("pct-cap", mode+"/"+nrUnit(cpu), "node %s: %s = %d exceeds the configured cap %d%% of capacity %d = %d", name, rn, v, *b.pct, b.capv, lim)
			}
		}
		if !nrFits(v-slack, b.bound) {
			msg := fmt.Sprintf("node %s: %s = %d (%s) exceeds %s", name, rn, v, mode, b.String())
			// the two recorded defects (known_findings.jsonl), seen on exactly the histories that trigger them and
			// explained by exactly the term they drop, are reported at the end of the run so that they cannot hide a
			// different violation later in the same run
			class, recorded := "", false
			switch {
			case s.tagNoMetric && b.pol == "maxUsageRequest" && nrFits(v-slack, b.bound+b.noMetric):
				class, recorded = "pod-without-metric-not-charged", true
			case s.tagMemReq && !cpu && b.pol == "request" && nrFits(v-slack, b.bound+b.sysExtra):
				class, recorded = "system-usage-not-charged", true
			default:
				class = b.classify(v, slack)
			}
			if recorded {
				s.deferFail("bound", mode+"/"+nrUnit(cpu)+"/"+b.pol+"/"+class, msg)
				continue
			}
			r.Fail("bound", mode+"/"+nrUnit(cpu)+"/"+b.pol+"/"+class, "%s", msg)
		}
		if b.noMetric > 0 {
			r.Probe("bound-with-pod-without-metric")
		}
		if b.dangling > 0 {
			r.Probe("bound-with-dangling-metric")
		}
		if b.bound <= 0 {
			r.Probe("bound-clamped-at-zero")
		}
		if b.annoExtra > 0 {
			r.Probe("bound-with-reservation-annotation-dominant/policy=" + in.annoPolicy)
		}
	}
}

// checkZones: every NUMA zone amount written to the NodeResourceTopology obeys the same bound with the zone's own
// capacity; system usage / reservation and unbound pods are spread evenly over the zones, a pod bound to k zones is
// charged 1/k in each of them. Computed exactly in units of 1/12 (zones <= 4).
func (s *nrSim) checkZones(name string, w nrNRTWrite, c *nrCapture, in *nrInputs) {
	r := s.r
	if c.nrt == nil {
		return
	}
	const L = 12
	Z := len(c.nrt.Zones)
	if Z == 0 || Z > 4 {
		return
	}
	find := func(z *topologyv1alpha1.Zone, n string) *topologyv1alpha1.ResourceInfo {
		for i := range z.Resources {
			if z.Resources[i].Name == n {
				return &z.Resources[i]
			}
		}
		return nil
	}
	for zi := range w.new.Zones {
		zn := &w.new.Zones[zi]
		var zr *topologyv1alpha1.Zone
		idx := -1
		for i := range c.nrt.Zones {
			if c.nrt.Zones[i].Name == zn.Name {
				zr, idx = &c.nrt.Zones[i], i
			}
		}
		if zr == nil {
			continue
		}
		for _, cpu := range []bool{true, false} {
			rn, base := string(extension.BatchMemory), string(corev1.ResourceMemory)
			if cpu {
				rn, base = string(extension.BatchCPU), string(corev1.ResourceCPU)
			}
			ri := find(zn, rn)
			if ri == nil {
				continue
			}
			// written amount in milli-units of the resource's own unit (batch-cpu counts milli-cores, memory bytes)
			vMilli := ri.Allocatable.MilliValue()
			if vMilli < 0 {
				r.Fail("negative", "zone/"+nrShort(rn), "node %s zone %s: %s = %s", name, zn.Name, rn, ri.Allocatable.String())
			}
			var zcap int64
			if bi := find(zr, base); bi != nil {
				if cpu {
					zcap = bi.Allocatable.MilliValue()
				} else {
					zcap = bi.Allocatable.Value()
				}
			}
			reclaim, sys, res, pol, pct := in.eff.memPct, in.sys.mem, in.reserved.mem, in.eff.memPol, in.eff.batchMemPct
			if cpu {
				reclaim, sys, res, pol, pct = in.eff.cpuPct, in.sys.cpu, in.reserved.cpu, in.eff.cpuPol, in.eff.batchCPUPct
			}
			margin := zcap * (100 - reclaim) / 100
			boundL := L*zcap - L*margin - (L/int64(Z))*nrMaxI(sys, res)
			for i := range in.cons {
				con := &in.cons[i]
				t := nrTerm(con, pol, cpu)
				if len(con.zones) == 0 {
					boundL -= (L / int64(Z)) * t
					continue
				}
				seen := map[int]bool{}
				k := 0
				for _, z := range con.zones {
					if !seen[z] {
						seen[z] = true
						k++
					}
				}
				if seen[idx] {
					boundL -= (L / int64(k)) * t
				}
			}
			if boundL < 0 {
				boundL = 0
			}
			// hysteresis: an old amount may be kept when it is within resourceDiffThreshold of the new one
			var oldQ *resource.Quantity
			for i := range w.old.Zones {
				if w.old.Zones[i].Name == zn.Name {
					if oi := find(&w.old.Zones[i], rn); oi != nil {
						oldQ = &oi.Allocatable
					}
				}
			}
			retained := oldQ != nil && oldQ.Cmp(ri.Allocatable) == 0
			kept := false
			// allow: within the limit (in 1/12 units; one unit of slack for the float truncation of the safety margin), or
			// an unchanged old amount that exceeds it by no more than the threshold
			allow := func(limL int64) bool {
				if L*vMilli <= 1000*(limL+L) {
					return true
				}
				if retained && float64(L*vMilli)-1000*float64(limL+L) <= float64(L*vMilli)*in.eff.diff {
					kept = true
					return true
				}
				return false
			}
			okBound := allow(boundL)
			okPct := pct == nil || allow(L*(zcap**pct/100))
			if okBound && okPct {
				if kept {
					r.Probe("zone-amount-kept-within-threshold")
				} else {
					r.Probe("zone-amount-checked")
				}
				continue
			}
			if !okPct {
				r.Fail("pct-cap", "zone/"+nrUnit(cpu), "node %s zone %s: %s = %s (before the write: %v) exceeds the configured cap %d%% of zone capacity %d (diff threshold %v)", name, zn.Name, rn, ri.Allocatable.String(), oldQ, *pct, zcap, in.eff.diff)
			}
			if !cpu && pol == "request" && s.tagMemReq && okPct {
				s.deferFail("bound", "zone/"+nrUnit(cpu)+"/"+pol, fmt.Sprintf("node %s zone %s: %s = %s exceeds the zone bound (bound*12 = %d)", name, zn.Name, rn, ri.Allocatable.String(), boundL))
				continue
			}
			r.Fail("bound", "zone/"+nrUnit(cpu)+"/"+pol, "node %s zone %s (%d zones): %s = %s (before the write: %v) exceeds zone capacity %d - margin %d - max(system usage %d, reservation %d)/%d - high-priority share; bound*12 = %d", name, zn.Name, Z, rn, ri.Allocatable.String(), oldQ, zcap, margin, sys, res, Z, boundL)
		}
	}
}

// ---------------------------------------------------------------- monotonicity (real Calculate compared with itself)

type nrCalcIn struct {
	strategy *configuration.ColocationStrategy
	node     *corev1.Node
	pods     *corev1.PodList
	metric   *slov1alpha1.NodeMetric
}

func (ci *nrCalcIn) clone() *nrCalcIn {
	return &nrCalcIn{strategy: ci.strategy.DeepCopy(), node: ci.node.DeepCopy(), pods: ci.pods.DeepCopy(), metric: ci.metric.DeepCopy()}
}

func (s *nrSim) calc(ci *nrCalcIn) map[string]resource.Quantity {
	out := map[string]resource.Quantity{}
	s.st.quiet = true
	defer func() { s.st.quiet = false }()
	rm := &framework.ResourceMetrics{NodeMetric: ci.metric}
	bi, err := (&batchresource.Plugin{}).Calculate(ci.strategy, ci.node, ci.pods, rm)
	if err != nil {
		s.r.HarnessFail("batch Calculate on captured inputs: %v", err)
	}
	mi, err := (&midresource.Plugin{}).Calculate(ci.strategy, ci.node, ci.pods, rm)
	if err != nil {
		s.r.HarnessFail("mid Calculate on captured inputs: %v", err)
	}
	for _, it := range append(bi, mi...) {
		if it.Reset || it.Quantity == nil {
			continue
		}
		out[string(it.Name)] = *it.Quantity
		for z, q := range it.ZoneQuantity {
			out[z+"/"+string(it.Name)] = q
		}
	}
	return out
}

func nrAddQ(rl corev1.ResourceList, name corev1.ResourceName, q resource.Quantity) {
	cur := rl[name]
	cur.Add(q)
	rl[name] = cur
}

func (s *nrSim) monotone(name string, c *nrCapture) {
	r := s.r
	base := &nrCalcIn{strategy: sloconfig.GetNodeColocationStrategy(s.cmHandler.GetCfgCopy(), c.node), node: c.node, pods: c.pods, metric: c.metric}
	if base.strategy == nil {
		return
	}
	p := base.clone()
	dCPU := nrCPUQ([]int64{1, 100, 1000, 7300}[r.Choose(4)])
	dMem := nrMemQ([]int64{1, 100 * nrMi, nrGi, 9*nrGi + 5}[r.Choose(4)])
	var hpPods []int
	for i := range p.pods.Items {
		pod := &p.pods.Items[i]
		if pm := s.pods[pod.Name]; pm != nil && nrPodHP(&pm.spec) && (pod.Status.Phase == corev1.PodRunning || pod.Status.Phase == corev1.PodPending) {
			hpPods = append(hpPods, i)
		}
	}
	var hpMetrics []int
	for i, pm := range p.metric.Status.PodsMetric {
		if pm.Priority != extension.PriorityBatch && pm.Priority != extension.PriorityFree {
			hpMetrics = append(hpMetrics, i)
		}
	}
	var hpApps []int
	for i, ha := range p.metric.Status.HostApplicationMetric {
		if ha.Priority == extension.PriorityProd || ha.Priority == extension.PriorityMid {
			hpApps = append(hpApps, i)
		}
	}
	kinds := []string{"system-usage", "reservation-annotation", "kubelet-reservation", "margin", "new-pod-without-metric", "node-usage"}
	if len(hpPods) > 0 {
		kinds = append(kinds, "pod-request")
	}
	if len(hpMetrics) > 0 {
		kinds = append(kinds, "pod-usage")
	}
	if len(hpApps) > 0 {
		kinds = append(kinds, "host-app-usage")
	}
	kind := kinds[r.Choose(len(kinds))]
	switch kind {
	case "system-usage":
		nm := p.metric.Status.NodeMetric
		if nm.SystemUsage.ResourceList == nil {
			nm.SystemUsage.ResourceList = corev1.ResourceList{}
		}
		nrAddQ(nm.SystemUsage.ResourceList, corev1.ResourceCPU, dCPU)
		nrAddQ(nm.SystemUsage.ResourceList, corev1.ResourceMemory, dMem)
	case "node-usage":
		nm := p.metric.Status.NodeMetric
		if nm.NodeUsage.ResourceList == nil {
			return
		}
		nrAddQ(nm.NodeUsage.ResourceList, corev1.ResourceCPU, dCPU)
		nrAddQ(nm.NodeUsage.ResourceList, corev1.ResourceMemory, dMem)
	case "reservation-annotation":
		nr := extension.NodeReservation{}
		if a := p.node.Annotations[extension.AnnotationNodeReservation]; a != "" {
			_ = json.Unmarshal([]byte(a), &nr)
		}
		if nr.ReservedCPUs != "" {
			return
		}
		if nr.Resources == nil {
			nr.Resources = corev1.ResourceList{}
		}
		nrAddQ(nr.Resources, corev1.ResourceCPU, dCPU)
		nrAddQ(nr.Resources, corev1.ResourceMemory, dMem)
		b, _ := json.Marshal(&nr)
		if p.node.Annotations == nil {
			p.node.Annotations = map[string]string{}
		}
		p.node.Annotations[extension.AnnotationNodeReservation] = string(b)
	case "kubelet-reservation":
		a := p.node.Status.Allocatable
		cq, mq := a[corev1.ResourceCPU], a[corev1.ResourceMemory]
		cq.Sub(dCPU)
		mq.Sub(dMem)
		if cq.Sign() < 0 || mq.Sign() < 0 {
			return
		}
		a[corev1.ResourceCPU], a[corev1.ResourceMemory] = cq, mq
	case "margin":
		d := int64(1 + r.Choose(20))
		if *p.strategy.CPUReclaimThresholdPercent < d || *p.strategy.MemoryReclaimThresholdPercent < d {
			return
		}
		*p.strategy.CPUReclaimThresholdPercent -= d
		*p.strategy.MemoryReclaimThresholdPercent -= d
	case "new-pod-without-metric":
		sp := &nrPodSpec{Class: "prod", QoS: "LS", CPU: dCPU.MilliValue(), Mem: dMem.Value(), Phase: "Running"}
		p.pods.Items = append(p.pods.Items, *nrBuildPod("verif-extra", c.node.Name, sp))
	case "pod-request":
		pod := &p.pods.Items[hpPods[r.Choose(len(hpPods))]]
		ct := &pod.Spec.Containers[0]
		if ct.Resources.Requests == nil {
			ct.Resources.Requests = corev1.ResourceList{}
		}
		nrAddQ(ct.Resources.Requests, corev1.ResourceCPU, dCPU)
		nrAddQ(ct.Resources.Requests, corev1.ResourceMemory, dMem)
		if ct.Resources.Limits != nil {
			nrAddQ(ct.Resources.Limits, corev1.ResourceCPU, dCPU)
			nrAddQ(ct.Resources.Limits, corev1.ResourceMemory, dMem)
		}
	case "pod-usage":
		pm := p.metric.Status.PodsMetric[hpMetrics[r.Choose(len(hpMetrics))]]
		if pm.PodUsage.ResourceList == nil {
			pm.PodUsage.ResourceList = corev1.ResourceList{}
		}
		nrAddQ(pm.PodUsage.ResourceList, corev1.ResourceCPU, dCPU)
		nrAddQ(pm.PodUsage.ResourceList, corev1.ResourceMemory, dMem)
	case "host-app-usage":
		ha := p.metric.Status.HostApplicationMetric[hpApps[r.Choose(len(hpApps))]]
		if ha.Usage.ResourceList == nil {
			ha.Usage.ResourceList = corev1.ResourceList{}
		}
		nrAddQ(ha.Usage.ResourceList, corev1.ResourceCPU, dCPU)
		nrAddQ(ha.Usage.ResourceList, corev1.ResourceMemory, dMem)
	}
	before := s.calc(base.clone())
	after := s.calc(p)
	r.OracleEval()
	r.Probe("monotonicity-" + kind)
	keys := make([]string, 0, len(after))
	for k := range after {
		keys = append(keys, k)
	}
	sort.Strings(keys)
	for _, k := range keys {
		a := after[k]
		b, had := before[k]
		if !had {
			r.Fail("monotonicity", kind+"/appeared", "node %s: raising %s made %s appear (%s)", name, kind, k, a.String())
		}
		if a.Cmp(b) > 0 {
			r.Fail("monotonicity", kind, "node %s: raising %s (by %s cpu / %s memory) raised %s from %s to %s", name, kind, dCPU.String(), dMem.String(), k, b.String(), a.String())
		}
	}
}

// ---------------------------------------------------------------- bounded liveness

// checkLiveness: after the last fault, a node whose metric has been stale for more than one sync period has no
// batch / mid amount published any more.
func (s *nrSim) checkLiveness() {
	r := s.r
	now := time.Now()
	for _, n := range s.nodes {
		node := s.nodeObj(n)
		if node == nil {
			continue
		}
		eff, ok := s.effective(node)
		if !ok {
			r.Probe("liveness-skipped-config-unavailable")
			continue
		}
		if !eff.enabled {
			continue
		}
		m, _ := s.st.latest(nrKindMetric, "/"+n.name).(*slov1alpha1.NodeMetric)
		staleAt := s.settleAt
		if m != nil && m.Status.UpdateTime != nil {
			if t := m.Status.UpdateTime.Add(time.Duration(eff.degradeMin) * time.Minute); t.After(staleAt) {
				staleAt = t
			}
		}
		r.OracleEval()
		if now.Before(staleAt.Add(time.Duration(s.cfg.SyncSec+60) * time.Second)) {
			r.Probe("liveness-metric-fresh")
			continue
		}
		r.Probe("liveness-metric-stale")
		if m == nil {
			r.Probe("liveness-metric-absent")
		}
		for _, rn := range nrExtNames {
			if q, present := node.Status.Allocatable[rn]; present && q.Value() != 0 && m == nil {
				r.Fail("absent-liveness", nrShort(string(rn)), "node %s: the NodeMetric does not exist since %s at the latest, now %s (sync period %ds, no fault since %s) but %s = %d is still published", n.name, staleAt.Format(time.RFC3339), now.Format(time.RFC3339), s.cfg.SyncSec, s.settleAt.Format(time.RFC3339), rn, q.Value())
			}
			if q, present := node.Status.Allocatable[rn]; present && q.Value() != 0 {
				r.Fail("stale-liveness", nrShort(string(rn)), "node %s: metric stale since %s, now %s (sync period %ds, no fault since %s) but %s = %d is still published", n.name, staleAt.Format(time.RFC3339), now.Format(time.RFC3339), s.cfg.SyncSec, s.settleAt.Format(time.RFC3339), rn, q.Value())
			}
		}
		if nrt, _ := s.st.latest(nrKindNRT, "/"+n.name).(*topologyv1alpha1.NodeResourceTopology); nrt != nil {
			for zi := range nrt.Zones {
				for _, ri := range nrt.Zones[zi].Resources {
					if (ri.Name == string(extension.BatchCPU) || ri.Name == string(extension.BatchMemory)) && !ri.Allocatable.IsZero() {
						if m == nil {
							r.Fail("absent-liveness", "zone/"+nrShort(ri.Name), "node %s zone %s: the NodeMetric does not exist since %s at the latest but zone amount %s = %s is still published in the NodeResourceTopology (node-level amounts are withdrawn)", n.name, nrt.Zones[zi].Name, staleAt.Format(time.RFC3339), ri.Name, ri.Allocatable.String())
						}
						r.Tag("zone-amounts-published-when-metric-goes-stale")
						r.Fail("stale-liveness", "zone/"+nrShort(ri.Name), "node %s zone %s: metric stale since %s but zone amount %s = %s is still published in the NodeResourceTopology (node-level amounts are withdrawn)", n.name, nrt.Zones[zi].Name, staleAt.Format(time.RFC3339), ri.Name, ri.Allocatable.String())
					}
				}
			}
		}
	}
}

// ---------------------------------------------------------------- NodeMetric absent: quiescent points

// published: does the node object promise any batch / mid amount?
func (s *nrSim) published(node *corev1.Node) bool {
	if node == nil {
		return false
	}
	for _, rn := range nrExtNames {
		if q, present := node.Status.Allocatable[rn]; present && q.Value() != 0 {
			return true
		}
	}
	return false
}

// checkQuiescent is the statement's "withdraw instead of freezing an old value" at the quiescent points of the
// controller (DESIGN.md 2.8): every event about nodes, NodeMetrics and the ConfigMap has been delivered, the work
// queue is empty and no retry of the node is waiting. At such a point nothing further will happen to the node until
// the environment changes something, so a node whose NodeMetric does not exist (there is no measurement at all any
// more, and the controller has been told so) must have nothing promised. Unlike a metric that merely grows old -
// which no event announces, hence the sync-period bound of checkLiveness - the disappearance is an event.
// Not demanded: config cache unavailable or colocation disabled for the node (the reconciler must not calculate), and
// a node whose reconcile was lost to an injected fault (s.missed) until it is reconciled again.
func (s *nrSim) checkQuiescent() {
	st, r := s.st, s.r
	if len(st.pending[nrKindNode])+len(st.pending[nrKindMetric])+len(st.pending[nrKindCM]) > 0 || s.q.Len() > 0 {
		return
	}
	for _, n := range s.nodes {
		node := s.nodeObj(n)
		if node == nil || st.latest(nrKindMetric, "/"+n.name) != nil {
			continue
		}
		if s.q.waiting(s.reqOf("/" + n.name)) {
			r.Probe("quiescent-absent-skipped-retry-pending")
			continue
		}
		if s.missed[n.name] {
			r.Probe("quiescent-absent-skipped-reconcile-lost-to-fault")
			continue
		}
		eff, ok := s.effective(node)
		if !ok || !eff.enabled {
			continue
		}
		r.OracleEval()
		r.Probe("quiescent-nodemetric-absent")
		for _, rn := range nrExtNames {
			if q, present := node.Status.Allocatable[rn]; present && q.Value() != 0 {
				r.Fail("absent-quiescent", nrShort(string(rn)), "node %s: the NodeMetric does not exist, every node / NodeMetric / ConfigMap event has been delivered and the work queue is empty (now %s), but %s = %d is still published", n.name, time.Now().Format(time.RFC3339), rn, q.Value())
			}
		}
	}
}
