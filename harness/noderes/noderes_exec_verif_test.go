//go:build verif

package noderesource

// Engine `noderes` (C09), part 3 of 4: execution — environment stubs (kubelet, koordlet, placer,
// user), informer transport, the controller worker loop, the simulated clock.

import (
	"context"
	"encoding/json"
	"fmt"
	"sort"
	"strings"
	"sync"
	"time"

	topologyv1alpha1 "github.com/k8stopologyawareschedwg/noderesourcetopology-api/pkg/apis/topology/v1alpha1"
	corev1 "k8s.io/api/core/v1"
	"k8s.io/apimachinery/pkg/api/resource"
	metav1 "k8s.io/apimachinery/pkg/apis/meta/v1"
	"k8s.io/apimachinery/pkg/types"
	"k8s.io/client-go/tools/record"
	"k8s.io/utils/clock"
	"sigs.k8s.io/controller-runtime/pkg/client"
	"sigs.k8s.io/controller-runtime/pkg/event"
	"sigs.k8s.io/controller-runtime/pkg/reconcile"

	"github.com/koordinator-sh/koordinator/apis/configuration"
	"github.com/koordinator-sh/koordinator/apis/extension"
	slov1alpha1 "github.com/koordinator-sh/koordinator/apis/slo/v1alpha1"
	"github.com/koordinator-sh/koordinator/pkg/slo-controller/config"
	"github.com/koordinator-sh/koordinator/pkg/slo-controller/noderesource/framework"
	"github.com/koordinator-sh/koordinator/pkg/slo-controller/noderesource/plugins/batchresource"
	"github.com/koordinator-sh/koordinator/pkg/slo-controller/noderesource/plugins/cpunormalization"
	"github.com/koordinator-sh/koordinator/pkg/slo-controller/noderesource/plugins/midresource"
	"github.com/koordinator-sh/koordinator/pkg/util/sloconfig"
	sim "github.com/koordinator-sh/koordinator/pkg/verifsim"
)

var nrPluginsOnce sync.Once

type nrGone struct {
	pod int
	at  time.Time
}

type nrNodeM struct {
	idx        int
	name       string
	cfg        nrNodeCfg
	koordletUp bool
	nextTick   time.Time
	blocked    time.Time // the koordlet is stuck in a slow write until then
	delayed    *slov1alpha1.NodeMetricStatus
	gone       []nrGone
}

type nrPodM struct {
	id      int
	name    string
	spec    nrPodSpec
	node    int
	created time.Time
}

type nrModelCfg struct {
	avail bool
	cm    *nrCMCfg // nil = the built-in default (colocation disabled)
}

type nrSim struct {
	r         *sim.Run
	cfg       nrCfg
	st        *nrStore
	q         *nrQueue
	rec       *NodeResourceReconciler
	cmHandler *config.ColocationHandlerForConfigMapEvent
	nmHandler *EnqueueRequestForNodeMetric
	nrtH      *batchresource.NRTHandler
	nodes     []*nrNodeM
	pods      map[string]*nrPodM // by pod name; entries survive deletion (dangling metrics name them)
	cmByRV    map[string]*nrCMCfg
	mcfg      nrModelCfg
	nextSync  time.Time
	faultsOff bool
	noHold    bool
	settleAt  time.Time
	nrec      int

	// missed: an injected read fault made the controller drop the node's reconcile without a retry (node list of a
	// config fan-out failed; ConfigMap probe of an unavailable config cache failed); cleared when the node is reconciled
	missed map[string]bool

	tagNoMetric, tagMemReq bool
	deferred               *[3]string
}

var nrCtx = context.Background()

func (nrEngine) Execute(r *sim.Run) {
	nrPluginsOnce.Do(func() {
		addPlugins(func(name string) bool {
			return name == midresource.PluginName || name == batchresource.PluginName || name == cpunormalization.PluginName
		})
	})
	s := &nrSim{r: r, pods: map[string]*nrPodM{}, cmByRV: map[string]*nrCMCfg{}, missed: map[string]bool{}}
	r.Plan.GetCfg(&s.cfg)
	var ops []nrOp
	r.Plan.GetOps(&ops)
	if len(s.cfg.Nodes) == 0 || s.cfg.ReportSec <= 0 || s.cfg.SyncSec <= 0 {
		r.HarnessFail("bad cfg")
	}
	s.st = newNRStore(s)
	now := time.Now()
	if s.cfg.CM != nil {
		s.writeCM(s.cfg.CM)
	}
	for i, nc := range s.cfg.Nodes {
		n := &nrNodeM{idx: i, name: fmt.Sprintf("n%d", i), cfg: nc}
		s.nodes = append(s.nodes, n)
		s.createNode(n)
		n.nextTick = now.Add(time.Duration(s.cfg.ReportSec) * time.Second)
	}
	s.nextSync = now.Add(time.Duration(s.cfg.SyncSec) * time.Second)
	s.startController()
	r.Sample("cfg nodes=%d report=%ds sync=%ds lag=%v faults=%v rate=%v", len(s.nodes), s.cfg.ReportSec, s.cfg.SyncSec, s.cfg.Lag, r.Plan.Faults, r.Plan.FaultRate)
	s.pump()
	for i := range ops {
		s.exec(&ops[i])
	}
	s.finish()
}

// ---------------------------------------------------------------- controller life cycle

func (s *nrSim) startController() {
	rec := record.EventRecorder(&record.FakeRecorder{})
	s.q = newNRQueue()
	s.cmHandler = config.NewColocationHandlerForConfigMapEvent(s.st, *sloconfig.NewDefaultColocationCfg(), rec)
	s.rec = &NodeResourceReconciler{
		Client:          s.st,
		Recorder:        rec,
		Clock:           clock.RealClock{},
		NodeSyncContext: framework.NewSyncContext(),
		GPUSyncContext:  framework.NewSyncContext(),
		cfgCache:        s.cmHandler,
	}
	s.nmHandler = &EnqueueRequestForNodeMetric{syncContext: s.rec.NodeSyncContext}
	s.nrtH = batchresource.VerifSetup(s.st)
	cpunormalization.VerifSetup(s.st, rec)
	s.mcfg = nrModelCfg{}
	// the manager waits for the informer caches to sync before it starts the worker: the cache is
	// current, and every existing object is announced to the handlers as a create event
	for _, k := range nrKinds {
		s.st.cacheRV[k] = s.st.rv
		s.st.pending[k] = nil
		keys := s.st.keys(k)
		for len(keys) > 0 {
			i := s.r.Choose(len(keys))
			if o := s.st.latest(k, keys[i]); o != nil {
				s.st.pending[k] = append(s.st.pending[k], &nrEvent{kind: k, typ: "add", key: keys[i], new: o, rv: s.st.rv})
			}
			keys = append(keys[:i], keys[i+1:]...)
		}
	}
}

// ---------------------------------------------------------------- object builders / environment writers

func nrCPUQ(milli int64) resource.Quantity {
	return *resource.NewMilliQuantity(milli, resource.DecimalSI)
}
func nrMemQ(b int64) resource.Quantity { return *resource.NewQuantity(b, resource.BinarySI) }

func (s *nrSim) createNode(n *nrNodeM) {
	c := n.cfg
	node := &corev1.Node{ObjectMeta: metav1.ObjectMeta{Name: n.name, Labels: map[string]string{}, Annotations: map[string]string{}}}
	if c.Pool != "" {
		node.Labels["pool"] = c.Pool
	}
	if c.AnnoRes != nil {
		node.Annotations[extension.AnnotationNodeReservation] = nrAnnoResJSON(c.AnnoRes)
	}
	node.Status.Capacity = corev1.ResourceList{corev1.ResourceCPU: nrCPUQ(c.CPU), corev1.ResourceMemory: nrMemQ(c.Mem), corev1.ResourcePods: *resource.NewQuantity(110, resource.DecimalSI)}
	node.Status.Allocatable = corev1.ResourceList{corev1.ResourceCPU: nrCPUQ(nrMax0(c.CPU - c.KResCPU)), corev1.ResourceMemory: nrMemQ(nrMax0(c.Mem - c.KResMem)), corev1.ResourcePods: *resource.NewQuantity(110, resource.DecimalSI)}
	s.st.put(nrKindNode, node)
	// the nodemetric controller of koord-manager creates the (empty) NodeMetric of every node
	s.st.put(nrKindMetric, &slov1alpha1.NodeMetric{ObjectMeta: metav1.ObjectMeta{Name: n.name}})
	if c.Zones > 0 {
		s.writeNRT(n, c.Zones, c.Uneven)
	}
	n.koordletUp = true
	n.blocked, n.delayed = time.Time{}, nil
}

func nrMax0(v int64) int64 {
	if v < 0 {
		return 0
	}
	return v
}

func (s *nrSim) nodeObj(n *nrNodeM) *corev1.Node {
	o, _ := s.st.latest(nrKindNode, "/"+n.name).(*corev1.Node)
	return o
}

func (s *nrSim) writeNRT(n *nrNodeM, zones int, uneven bool) {
	node := s.nodeObj(n)
	if node == nil {
		return
	}
	capCPU, capMem := node.Status.Capacity.Cpu().MilliValue(), node.Status.Capacity.Memory().Value()
	old, _ := s.st.latest(nrKindNRT, "/"+n.name).(*topologyv1alpha1.NodeResourceTopology)
	nrt := &topologyv1alpha1.NodeResourceTopology{ObjectMeta: metav1.ObjectMeta{Name: n.name}}
	for i := 0; i < zones; i++ {
		cpu, mem := capCPU/int64(zones)/1000*1000, capMem/int64(zones)
		if uneven && zones > 1 {
			if i == 0 {
				cpu, mem = cpu+cpu/2/1000*1000, mem+mem/2
			} else if i == 1 {
				cpu, mem = cpu-cpu/2/1000*1000, mem-mem/2
			}
		}
		z := topologyv1alpha1.Zone{Name: fmt.Sprintf("node-%d", i), Type: "Node"}
		// the koordlet merges its zone list into the existing one: resources written by others survive
		if old != nil && len(old.Zones) == zones {
			for _, ri := range old.Zones[i].Resources {
				if ri.Name != string(corev1.ResourceCPU) && ri.Name != string(corev1.ResourceMemory) {
					z.Resources = append(z.Resources, ri)
				}
			}
		}
		z.Resources = append(z.Resources,
			topologyv1alpha1.ResourceInfo{Name: string(corev1.ResourceCPU), Capacity: nrCPUQ(cpu), Allocatable: nrCPUQ(cpu), Available: nrCPUQ(cpu)},
			topologyv1alpha1.ResourceInfo{Name: string(corev1.ResourceMemory), Capacity: nrMemQ(mem), Allocatable: nrMemQ(mem), Available: nrMemQ(mem)})
		sort.Slice(z.Resources, func(a, b int) bool { return z.Resources[a].Name < z.Resources[b].Name })
		nrt.Zones = append(nrt.Zones, z)
	}
	s.st.put(nrKindNRT, nrt)
}

func nrStrategyJSON(st *nrStrategy) map[string]any {
	b, _ := json.Marshal(st)
	m := map[string]any{}
	_ = json.Unmarshal(b, &m)
	return m
}

func (s *nrSim) writeCM(c *nrCMCfg) {
	key := sloconfig.ConfigNameSpace + "/" + sloconfig.SLOCtrlConfigMap
	if c.Delete {
		s.st.del(nrKindCM, key)
		return
	}
	cm := &corev1.ConfigMap{ObjectMeta: metav1.ObjectMeta{Namespace: sloconfig.ConfigNameSpace, Name: sloconfig.SLOCtrlConfigMap}, Data: map[string]string{"other-config": "{}"}}
	if !c.Empty {
		m := nrStrategyJSON(&c.Cluster)
		var ncs []any
		for i, nc := range c.NodeConfigs {
			e := nrStrategyJSON(&nc.Strategy)
			e["name"] = fmt.Sprintf("nc%d", i)
			e["nodeSelector"] = map[string]any{"matchLabels": map[string]string{"pool": nc.Pool}}
			ncs = append(ncs, e)
		}
		if len(ncs) > 0 {
			m["nodeConfigs"] = ncs
		}
		switch c.Invalid {
		case "degrade0":
			m["degradeTimeMinutes"] = 0
		case "negpct":
			m["cpuReclaimThresholdPercent"] = -5
		case "midpct":
			m["midCPUThresholdPercent"] = 150
		case "diff0":
			m["resourceDiffThreshold"] = 0
		}
		b, _ := json.Marshal(m)
		data := string(b)
		if c.Invalid == "badjson" {
			data = "{\"enable\": tru"
		}
		cm.Data[configuration.ColocationConfigKey] = data
	}
	s.st.put(nrKindCM, cm)
	s.cmByRV[cm.ResourceVersion] = c
}

func nrPodHP(sp *nrPodSpec) bool {
	switch sp.Class {
	case "prod", "mid":
		return true
	case "batch", "free":
		return false
	}
	// no koordinator priority: the priority band follows the QoS class (BE -> batch, everything else -> prod);
	// without a koordinator QoS label the Kubernetes QoS decides (BestEffort -> BE)
	switch sp.QoS {
	case "BE":
		return false
	case "":
		return sp.CPU > 0 || sp.Mem > 0
	}
	return true
}

func nrPodPrioName(sp *nrPodSpec) extension.PriorityClass {
	switch sp.Class {
	case "prod":
		return extension.PriorityProd
	case "mid":
		return extension.PriorityMid
	case "batch":
		return extension.PriorityBatch
	case "free":
		return extension.PriorityFree
	}
	if nrPodHP(sp) {
		return extension.PriorityProd
	}
	return extension.PriorityBatch
}

func nrBuildPod(name, nodeName string, sp *nrPodSpec) *corev1.Pod {
	pod := &corev1.Pod{ObjectMeta: metav1.ObjectMeta{Namespace: "default", Name: name, Labels: map[string]string{}, Annotations: map[string]string{}}}
	pod.Spec.NodeName = nodeName
	if sp.Class != "none" {
		if sp.ByVal {
			v := map[string]int32{"prod": 9500, "mid": 7500, "batch": 5500, "free": 3500}[sp.Class]
			pod.Spec.Priority = &v
		} else {
			pod.Labels[extension.LabelPodPriorityClass] = string(nrPodPrioName(sp))
		}
	} else if sp.ByVal {
		v := int32(2000001000) // system-node-critical: outside every koordinator band
		pod.Spec.Priority = &v
	}
	if sp.QoS != "" {
		pod.Labels[extension.LabelPodQoS] = sp.QoS
	}
	parts := [][2]int64{{sp.CPU, sp.Mem}}
	if sp.Split {
		parts = [][2]int64{{sp.CPU / 2, sp.Mem / 3}, {sp.CPU - sp.CPU/2, sp.Mem - sp.Mem/3}}
	}
	lowTier := sp.Class == "batch" || sp.Class == "free"
	for i, pt := range parts {
		c := corev1.Container{Name: fmt.Sprintf("c%d", i)}
		req := corev1.ResourceList{}
		if lowTier {
			if pt[0] > 0 {
				req[extension.BatchCPU] = *resource.NewQuantity(pt[0], resource.DecimalSI)
			}
			if pt[1] > 0 {
				req[extension.BatchMemory] = nrMemQ(pt[1])
			}
		} else {
			if pt[0] > 0 {
				req[corev1.ResourceCPU] = nrCPUQ(pt[0])
			}
			if pt[1] > 0 {
				req[corev1.ResourceMemory] = nrMemQ(pt[1])
			}
		}
		c.Resources.Requests = req
		if sp.QoS == "LSE" || sp.QoS == "LSR" || lowTier {
			c.Resources.Limits = req.DeepCopy()
		}
		pod.Spec.Containers = append(pod.Spec.Containers, c)
	}
	if len(sp.NUMA) > 0 {
		rs := &extension.ResourceStatus{}
		for _, id := range sp.NUMA {
			rs.NUMANodeResources = append(rs.NUMANodeResources, extension.NUMANodeResource{Node: int32(id)})
		}
		b, _ := json.Marshal(rs)
		pod.Annotations[extension.AnnotationResourceStatus] = string(b)
	}
	pod.Status.Phase = corev1.PodPhase(sp.Phase)
	return pod
}

// nrPodReq is the request the pod holds on plain cpu/memory (what a high-priority pod is charged at).
func nrPodReq(sp *nrPodSpec) nrRes {
	if sp.Class == "batch" || sp.Class == "free" {
		return nrRes{}
	}
	return nrRes{sp.CPU, sp.Mem}
}

func (s *nrSim) heartbeat(nodeName string) {
	cur, _ := s.st.latest(nrKindNode, "/"+nodeName).(*corev1.Node)
	if cur == nil {
		return
	}
	nn := cur.DeepCopy()
	t := metav1.NewTime(time.Now())
	if len(nn.Status.Conditions) == 0 {
		nn.Status.Conditions = []corev1.NodeCondition{{Type: corev1.NodeReady, Status: corev1.ConditionTrue}}
	}
	nn.Status.Conditions[0].LastHeartbeatTime = t
	s.st.put(nrKindNode, nn)
}

// ---------------------------------------------------------------- koordlet stub

func nrPick(h uint64, xs ...int64) int64 { return xs[h%uint64(len(xs))] }

func (s *nrSim) buildReport(n *nrNodeM, seed uint64, rep *nrReport) *slov1alpha1.NodeMetricStatus {
	now := time.Now()
	node := s.nodeObj(n)
	capCPU, capMem := node.Status.Capacity.Cpu().MilliValue(), node.Status.Capacity.Memory().Value()
	interval := time.Duration(s.cfg.ReportSec) * time.Second
	st := &slov1alpha1.NodeMetricStatus{}
	ut := now.Add(time.Duration(n.cfg.SkewS-rep.LateS) * time.Second)
	st.UpdateTime = &metav1.Time{Time: ut}
	var sumCPU, sumMem, reclCPU, reclMem int64
	addPod := func(pm *nrPodM) {
		h := sim.Mix(seed, sim.HashString(pm.name))
		req := nrRes{pm.spec.CPU, pm.spec.Mem}
		var cpu, mem int64
		if req.cpu > 0 {
			cpu = nrPick(sim.Mix(h, 1), 0, 1, req.cpu/10, req.cpu/2, req.cpu-1, req.cpu, req.cpu*3/2, req.cpu*3)
			if (pm.spec.QoS == "LSE" || pm.spec.QoS == "LSR") && cpu > req.cpu {
				cpu = req.cpu // exclusive cpus: usage cannot exceed the cpuset
			}
		} else {
			cpu = nrPick(sim.Mix(h, 1), 0, 50, 700)
		}
		if req.mem > 0 {
			mem = nrPick(sim.Mix(h, 2), 0, 1, req.mem/10, req.mem/2, req.mem-1, req.mem, req.mem+req.mem/4)
		} else {
			mem = nrPick(sim.Mix(h, 2), 0, 64*nrMi, nrGi)
		}
		qos := extension.QoSClass(pm.spec.QoS)
		st.PodsMetric = append(st.PodsMetric, &slov1alpha1.PodMetricInfo{Namespace: "default", Name: pm.name, Priority: nrPodPrioName(&pm.spec), QoS: qos,
			PodUsage: slov1alpha1.ResourceMap{ResourceList: corev1.ResourceList{corev1.ResourceCPU: nrCPUQ(cpu), corev1.ResourceMemory: nrMemQ(mem)}}})
		sumCPU, sumMem = sumCPU+cpu, sumMem+mem
		if pm.spec.Class == "prod" {
			reclCPU += nrMax0(req.cpu - cpu)
			reclMem += nrMax0(req.mem - mem)
		}
	}
	for _, k := range s.st.keys(nrKindPod) {
		p, _ := s.st.latest(nrKindPod, k).(*corev1.Pod)
		if p == nil || p.Spec.NodeName != n.name {
			continue
		}
		pm := s.pods[p.Name]
		h := int(sim.Mix(seed, sim.HashString("incl"+pm.name)) % 100)
		switch p.Status.Phase {
		case corev1.PodRunning:
			pct := rep.POld
			if now.Sub(pm.created) < interval {
				pct = rep.PNew
			}
			if h < pct {
				addPod(pm)
			}
		case corev1.PodSucceeded, corev1.PodFailed:
			if h < rep.PGone {
				addPod(pm)
			}
		}
	}
	keep := n.gone[:0]
	for _, ge := range n.gone {
		if now.Sub(ge.at) > 3*interval {
			continue
		}
		keep = append(keep, ge)
		pm := s.pods[fmt.Sprintf("p%d", ge.pod)]
		if int(sim.Mix(seed, sim.HashString("incl"+pm.name))%100) < rep.PGone {
			addPod(pm)
			s.r.Probe("report-names-deleted-pod")
		}
	}
	n.gone = keep
	sort.Slice(st.PodsMetric, func(i, j int) bool { return st.PodsMetric[i].Name < st.PodsMetric[j].Name })
	var sysCPU, sysMem int64
	switch rep.SysKind {
	case 1:
		sysCPU, sysMem = capCPU/100, capMem/100
	case 2:
		sysCPU, sysMem = capCPU/20, capMem/20
	case 3:
		sysCPU, sysMem = n.cfg.KResCPU/2, n.cfg.KResMem/2
	case 4:
		sysCPU, sysMem = 2*n.cfg.KResCPU+300, 2*n.cfg.KResMem+300*nrMi
	case 5:
		sysCPU, sysMem = capCPU*3/10, capMem*3/10
	case 6:
		sysCPU, sysMem = 777, 3*nrGi+1
	case 7:
		sysCPU, sysMem = capCPU*6/10, capMem*7/10
	}
	var appCPU, appMem int64
	for _, ha := range n.cfg.HostApps {
		h := sim.Mix(seed, sim.HashString("app"+ha.Name))
		c, m := nrPick(h, 0, 200, 2000), nrPick(sim.Mix(h, 3), 0, 512*nrMi, 4*nrGi)
		appCPU, appMem = appCPU+c, appMem+m
		st.HostApplicationMetric = append(st.HostApplicationMetric, &slov1alpha1.HostApplicationMetricInfo{Name: ha.Name,
			Priority: map[string]extension.PriorityClass{"prod": extension.PriorityProd, "mid": extension.PriorityMid, "batch": extension.PriorityBatch}[ha.Prio],
			Usage:    slov1alpha1.ResourceMap{ResourceList: corev1.ResourceList{corev1.ResourceCPU: nrCPUQ(c), corev1.ResourceMemory: nrMemQ(m)}}})
	}
	nm := &slov1alpha1.NodeMetricInfo{}
	if !rep.NoSys {
		nm.SystemUsage = slov1alpha1.ResourceMap{ResourceList: corev1.ResourceList{corev1.ResourceCPU: nrCPUQ(sysCPU), corev1.ResourceMemory: nrMemQ(sysMem)}}
	}
	if !rep.NoNode {
		nm.NodeUsage = slov1alpha1.ResourceMap{ResourceList: corev1.ResourceList{corev1.ResourceCPU: nrCPUQ(sysCPU + sumCPU + appCPU), corev1.ResourceMemory: nrMemQ(sysMem + sumMem + appMem)}}
	}
	st.NodeMetric = nm
	switch rep.NoRecl {
	case 0:
		f := int64(1 + sim.Mix(seed, 77)%2)
		st.ProdReclaimableMetric = &slov1alpha1.ReclaimableMetric{Resource: slov1alpha1.ResourceMap{ResourceList: corev1.ResourceList{corev1.ResourceCPU: nrCPUQ(reclCPU / f), corev1.ResourceMemory: nrMemQ(reclMem / f)}}}
	case 2:
		st.ProdReclaimableMetric = &slov1alpha1.ReclaimableMetric{}
	}
	return st
}

func (s *nrSim) writeReport(n *nrNodeM, status *slov1alpha1.NodeMetricStatus) {
	cur, _ := s.st.latest(nrKindMetric, "/"+n.name).(*slov1alpha1.NodeMetric)
	if cur == nil {
		return // the koordlet skips the round when its NodeMetric does not exist
	}
	nm := cur.DeepCopy()
	nm.Status = *status
	s.st.put(nrKindMetric, nm)
	s.r.Event("report %s ut=%d pods=%d", n.name, status.UpdateTime.Unix(), len(status.PodsMetric))
}

// tick is one periodic report round of a node's koordlet.
func (s *nrSim) tick(n *nrNodeM, at time.Time) {
	if s.nodeObj(n) == nil || !n.koordletUp || time.Now().Before(n.blocked) {
		return
	}
	seed := sim.Mix(sim.Mix(s.cfg.Seed, uint64(n.idx)), uint64(at.Unix()))
	rep := &nrReport{PNew: 30, POld: 100, PGone: 50, SysKind: int(seed % 8)}
	if !s.faultsOff {
		switch s.r.Fault("koordlet-report", "lost", "delayed") {
		case "lost":
			s.r.Event("report %s lost", n.name)
			return
		case "delayed":
			n.delayed = s.buildReport(n, seed, rep)
			d := []int64{30, 150, 400, 1200, 2500}[s.r.Choose(5)]
			n.blocked = time.Now().Add(time.Duration(d) * time.Second)
			s.r.Event("report %s delayed %ds", n.name, d)
			return
		}
	}
	s.writeReport(n, s.buildReport(n, seed, rep))
}

// ---------------------------------------------------------------- ops

func (s *nrSim) exec(op *nrOp) {
	r := s.r
	var n *nrNodeM
	if op.N >= 0 && op.N < len(s.nodes) {
		n = s.nodes[op.N]
	}
	skip := func() { r.OpSkipped() }
	switch op.K {
	case "advance":
		if op.D <= 0 {
			skip()
			return
		}
		r.Event("advance %d", op.D)
		s.advance(time.Duration(op.D) * time.Second)
	case "pump":
		s.pump()
	case "report":
		if n == nil || op.Rep == nil || s.nodeObj(n) == nil || !n.koordletUp || time.Now().Before(n.blocked) {
			skip()
			return
		}
		s.writeReport(n, s.buildReport(n, op.S, op.Rep))
		if op.Rep.LateS > 0 {
			r.Probe("report-late")
		}
		s.pump()
	case "koordlet":
		if n == nil || n.koordletUp == op.Up {
			skip()
			return
		}
		n.koordletUp = op.Up
		if op.Up {
			n.nextTick = time.Now().Add(time.Duration(s.cfg.ReportSec) * time.Second)
		}
		r.Event("koordlet %s up=%v", n.name, op.Up)
	case "metric":
		if n == nil || s.nodeObj(n) == nil {
			skip()
			return
		}
		cur := s.st.latest(nrKindMetric, "/"+n.name)
		if op.Up == (cur != nil) {
			skip()
			return
		}
		if op.Up {
			// the nodemetric controller creates the NodeMetric of a node that has none: empty, nothing reported yet
			s.st.put(nrKindMetric, &slov1alpha1.NodeMetric{ObjectMeta: metav1.ObjectMeta{Name: n.name}})
			r.Probe("nodemetric-recreated")
		} else {
			s.st.del(nrKindMetric, "/"+n.name)
			r.Probe("nodemetric-deleted")
			if s.published(s.nodeObj(n)) {
				r.Probe("nodemetric-deleted-while-amounts-published")
			}
		}
		r.Event("metric %s exists=%v", n.name, op.Up)
		s.pump()
	case "pod_add":
		name := fmt.Sprintf("p%d", op.P)
		if n == nil || op.Pod == nil || s.pods[name] != nil || s.nodeObj(n) == nil {
			skip()
			return
		}
		sp := *op.Pod
		if len(sp.NUMA) > 0 {
			sp.NUMA = append([]int(nil), sp.NUMA...)
		}
		s.pods[name] = &nrPodM{id: op.P, name: name, spec: sp, node: n.idx, created: time.Now()}
		s.st.put(nrKindPod, nrBuildPod(name, n.name, &sp))
		r.Event("pod_add %s on %s %s/%s cpu=%d mem=%d", name, n.name, sp.Class, sp.QoS, sp.CPU, sp.Mem)
		s.pump()
	case "pod_del":
		name := fmt.Sprintf("p%d", op.P)
		cur, _ := s.st.latest(nrKindPod, "default/"+name).(*corev1.Pod)
		if cur == nil {
			skip()
			return
		}
		s.st.del(nrKindPod, "default/"+name)
		pm := s.pods[name]
		s.nodes[pm.node].gone = append(s.nodes[pm.node].gone, nrGone{pod: pm.id, at: time.Now()})
		r.Event("pod_del %s", name)
		s.pump()
	case "pod_phase":
		name := fmt.Sprintf("p%d", op.P)
		cur, _ := s.st.latest(nrKindPod, "default/"+name).(*corev1.Pod)
		if cur == nil || string(cur.Status.Phase) == op.To || cur.Status.Phase == corev1.PodSucceeded || cur.Status.Phase == corev1.PodFailed {
			skip()
			return
		}
		np := cur.DeepCopy()
		np.Status.Phase = corev1.PodPhase(op.To)
		s.st.put(nrKindPod, np)
		r.Event("pod_phase %s %s", name, op.To)
		s.pump()
	case "cfg":
		if op.Cfg == nil {
			skip()
			return
		}
		key := sloconfig.ConfigNameSpace + "/" + sloconfig.SLOCtrlConfigMap
		if op.Cfg.Delete && s.st.latest(nrKindCM, key) == nil {
			skip()
			return
		}
		s.writeCM(op.Cfg)
		r.Event("cfg invalid=%q empty=%v delete=%v", op.Cfg.Invalid, op.Cfg.Empty, op.Cfg.Delete)
		if op.Cfg.Invalid != "" {
			r.Probe("cfg-invalid-written")
		}
		s.pump()
	case "node":
		if n == nil || op.Node == nil || !s.nodeChange(n, op.Node) {
			skip()
			return
		}
		r.Event("node %s %s", n.name, op.Node.What)
		s.pump()
	case "nrt":
		if n == nil || s.nodeObj(n) == nil {
			skip()
			return
		}
		if op.Z <= 0 {
			if s.st.latest(nrKindNRT, "/"+n.name) == nil {
				skip()
				return
			}
			s.st.del(nrKindNRT, "/"+n.name)
		} else {
			s.writeNRT(n, op.Z, op.S%3 == 0)
		}
		r.Event("nrt %s zones=%d", n.name, op.Z)
		s.pump()
	case "restart":
		r.Event("restart")
		r.Probe("controller-restart")
		s.startController()
		s.pump()
	default:
		skip()
		return
	}
	r.OpDone()
}

func nrAnnoResJSON(ch *nrNodeChange) string {
	nr := extension.NodeReservation{Resources: corev1.ResourceList{}, ApplyPolicy: extension.NodeReservationApplyPolicy(ch.Policy)}
	if ch.CPU > 0 {
		nr.Resources[corev1.ResourceCPU] = nrCPUQ(ch.CPU)
	}
	if ch.Mem > 0 {
		nr.Resources[corev1.ResourceMemory] = nrMemQ(ch.Mem)
	}
	if ch.CPUs > 0 {
		nr.ReservedCPUs = fmt.Sprintf("0-%d", ch.CPUs-1)
		if ch.CPUs == 1 {
			nr.ReservedCPUs = "0"
		}
	}
	b, _ := json.Marshal(&nr)
	return string(b)
}

func (s *nrSim) nodeChange(n *nrNodeM, ch *nrNodeChange) bool {
	cur := s.nodeObj(n)
	if ch.What == "create" {
		if cur != nil {
			return false
		}
		s.createNode(n)
		n.nextTick = time.Now().Add(time.Duration(s.cfg.ReportSec) * time.Second)
		return true
	}
	if cur == nil {
		return false
	}
	nn := cur.DeepCopy()
	if nn.Labels == nil {
		nn.Labels = map[string]string{}
	}
	if nn.Annotations == nil {
		nn.Annotations = map[string]string{}
	}
	switch ch.What {
	case "delete":
		s.st.del(nrKindNode, "/"+n.name)
		s.st.del(nrKindMetric, "/"+n.name)
		s.st.del(nrKindNRT, "/"+n.name)
		for _, k := range s.st.keys(nrKindPod) {
			if p, _ := s.st.latest(nrKindPod, k).(*corev1.Pod); p != nil && p.Spec.NodeName == n.name {
				s.st.del(nrKindPod, k)
			}
		}
		n.gone = nil
		return true
	case "anno_res":
		if ch.Removal {
			if _, ok := nn.Annotations[extension.AnnotationNodeReservation]; !ok {
				return false
			}
			delete(nn.Annotations, extension.AnnotationNodeReservation)
		} else {
			nn.Annotations[extension.AnnotationNodeReservation] = nrAnnoResJSON(ch)
		}
	case "kubelet_res":
		n.cfg.KResCPU, n.cfg.KResMem = ch.CPU, ch.Mem
		c := nn.Status.Capacity
		nn.Status.Allocatable[corev1.ResourceCPU] = nrCPUQ(nrMax0(c.Cpu().MilliValue() - ch.CPU))
		nn.Status.Allocatable[corev1.ResourceMemory] = nrMemQ(nrMax0(c.Memory().Value() - ch.Mem))
	case "capacity":
		if ch.CPU <= 0 || ch.Mem <= 0 {
			return false
		}
		nn.Status.Capacity[corev1.ResourceCPU] = nrCPUQ(ch.CPU)
		nn.Status.Capacity[corev1.ResourceMemory] = nrMemQ(ch.Mem)
		nn.Status.Allocatable[corev1.ResourceCPU] = nrCPUQ(nrMax0(ch.CPU - n.cfg.KResCPU))
		nn.Status.Allocatable[corev1.ResourceMemory] = nrMemQ(nrMax0(ch.Mem - n.cfg.KResMem))
	case "label_ratio":
		l := extension.LabelCPUReclaimRatio
		if ch.Res == "mem" {
			l = extension.LabelMemoryReclaimRatio
		}
		if ch.Removal {
			if _, ok := nn.Labels[l]; !ok {
				return false
			}
			delete(nn.Labels, l)
		} else {
			if _, ok := nrRatioPct[ch.Ratio]; !ok {
				return false
			}
			nn.Labels[l] = ch.Ratio
		}
	case "anno_strategy":
		if ch.Removal || ch.Strat == nil {
			if _, ok := nn.Annotations[extension.AnnotationNodeColocationStrategy]; !ok {
				return false
			}
			delete(nn.Annotations, extension.AnnotationNodeColocationStrategy)
		} else {
			b, _ := json.Marshal(ch.Strat)
			nn.Annotations[extension.AnnotationNodeColocationStrategy] = string(b)
		}
	case "strip_ratio_anno":
		if _, ok := nn.Annotations[extension.AnnotationCPUNormalizationRatio]; !ok {
			return false
		}
		delete(nn.Annotations, extension.AnnotationCPUNormalizationRatio)
	case "heartbeat":
		s.heartbeat(n.name)
		return true
	case "pool":
		if nn.Labels["pool"] == ch.Pool {
			return false
		}
		if ch.Pool == "" {
			delete(nn.Labels, "pool")
		} else {
			nn.Labels["pool"] = ch.Pool
		}
	default:
		return false
	}
	s.st.put(nrKindNode, nn)
	return true
}

var nrRatioPct = map[string]int64{"0.25": 25, "0.5": 50, "0.75": 75, "1": 100}

// ---------------------------------------------------------------- informer transport + worker

func (s *nrSim) reqOf(key string) reconcile.Request {
	return reconcile.Request{NamespacedName: types.NamespacedName{Name: key[strings.Index(key, "/")+1:]}}
}

// applyCM is the harness's model of what the colocation config cache must hold after it saw cm.
func (s *nrSim) applyCM(cm *corev1.ConfigMap) {
	if cm == nil { // NotFound at the availability probe: built-in default
		s.mcfg = nrModelCfg{avail: true}
		return
	}
	c := s.cmByRV[cm.ResourceVersion]
	if c == nil {
		s.r.HarnessFail("config map version %s unknown to the harness", cm.ResourceVersion)
	}
	switch {
	case c.Invalid != "":
		s.r.Probe("cfg-invalid-refused")
	case c.Empty:
		s.mcfg = nrModelCfg{avail: true}
	default:
		s.mcfg = nrModelCfg{avail: true, cm: c}
	}
}

func (s *nrSim) deliver(kind string) {
	st := s.st
	evs := st.pending[kind]
	e := evs[0]
	evs = evs[1:]
	// coalescing: consecutive updates of one object may be merged by the informer
	for len(evs) > 0 && e.typ == "update" && evs[0].typ == "update" && evs[0].key == e.key && s.r.Flip(0.15) {
		e = &nrEvent{kind: kind, typ: "update", key: e.key, old: e.old, new: evs[0].new, rv: evs[0].rv}
		evs = evs[1:]
		s.r.Probe("informer-coalesced-update")
	}
	st.pending[kind] = evs
	if e.rv > st.cacheRV[kind] {
		st.cacheRV[kind] = e.rv
	}
	s.r.Event("deliver %s %s %s rv=%d", kind, e.typ, e.key, e.rv)
	switch kind {
	case nrKindNode:
		s.q.Add(s.reqOf(e.key)) // For(&Node{}): handler.EnqueueRequestForObject, no predicates
	case nrKindMetric:
		switch e.typ {
		case "add":
			s.nmHandler.Create(nrCtx, event.TypedCreateEvent[client.Object]{Object: e.new}, s.q)
		case "update":
			s.nmHandler.Update(nrCtx, event.TypedUpdateEvent[client.Object]{ObjectOld: e.old, ObjectNew: e.new}, s.q)
		case "delete":
			s.nmHandler.Delete(nrCtx, event.TypedDeleteEvent[client.Object]{Object: e.old}, s.q)
		}
	case nrKindCM:
		switch e.typ {
		case "add":
			s.cmHandler.Create(nrCtx, event.TypedCreateEvent[client.Object]{Object: e.new}, s.q)
			s.applyCM(e.new.(*corev1.ConfigMap))
		case "update":
			s.cmHandler.Update(nrCtx, event.TypedUpdateEvent[client.Object]{ObjectOld: e.old, ObjectNew: e.new}, s.q)
			if o, n := e.old.(*corev1.ConfigMap), e.new.(*corev1.ConfigMap); o.Data[configuration.ColocationConfigKey] != n.Data[configuration.ColocationConfigKey] {
				s.applyCM(n)
			}
		case "delete":
			s.cmHandler.Delete(nrCtx, event.TypedDeleteEvent[client.Object]{Object: e.old}, s.q)
		}
	case nrKindNRT:
		switch e.typ {
		case "add":
			s.nrtH.Create(nrCtx, event.TypedCreateEvent[client.Object]{Object: e.new}, s.q)
		case "update":
			s.nrtH.Update(nrCtx, event.TypedUpdateEvent[client.Object]{ObjectOld: e.old, ObjectNew: e.new}, s.q)
		case "delete":
			s.nrtH.Delete(nrCtx, event.TypedDeleteEvent[client.Object]{Object: e.old}, s.q)
		}
	}
}

// pump lets the informers deliver and the worker reconcile until nothing is left to do (or
// everything left is held back: cache lag).
func (s *nrSim) pump() {
	st := s.st
	for _, k := range nrKinds {
		st.held[k] = false
		if s.noHold || len(st.pending[k]) == 0 {
			continue
		}
		if !s.faultsOff && s.r.Fault("informer-"+k, "stale-read") != "" {
			st.held[k] = true
		} else if s.cfg.Lag && s.r.Flip(0.2) {
			st.held[k] = true
			s.r.Probe("informer-lag")
		}
	}
	for iter := 0; ; iter++ {
		if iter > 2000 {
			s.r.HarnessFail("pump does not quiesce")
		}
		s.q.release(time.Now())
		var opts []string
		for _, k := range nrKinds {
			if len(st.pending[k]) > 0 && !st.held[k] {
				opts = append(opts, k)
			}
		}
		if s.q.Len() > 0 {
			opts = append(opts, "work")
		}
		if len(opts) == 0 {
			s.checkQuiescent()
			return
		}
		if o := opts[s.r.Choose(len(opts))]; o == "work" {
			s.work()
		} else {
			s.deliver(o)
		}
	}
}

func (s *nrSim) work() {
	req, _ := s.q.Get()
	c := &nrCapture{}
	s.st.cap = c
	availBefore := s.mcfg.avail
	mBefore := s.mcfg
	delete(s.missed, req.Name)
	res, err := s.rec.Reconcile(nrCtx, req)
	s.st.cap = nil
	s.nrec++
	if !availBefore && c.firstCMErr == "err" {
		s.missed[req.Name] = true // dropped at the failed ConfigMap probe, no retry
	}
	switch {
	case err != nil:
		s.q.AddRateLimited(req)
		s.r.Probe("reconcile-error-requeued")
	case res.RequeueAfter > 0:
		s.q.Forget(req)
		s.q.AddAfter(req, res.RequeueAfter)
	case res.Requeue:
		s.q.AddRateLimited(req)
	default:
		s.q.Forget(req)
	}
	s.q.Done(req)
	if !availBefore && c.calls > 0 {
		// the config cache was not available: the first thing Reconcile does is to look the ConfigMap up
		if !c.firstIsCM {
			s.r.HarnessFail("config unavailable in the model but Reconcile did not probe the ConfigMap first")
		}
		switch c.firstCMErr {
		case "err":
		case "notfound":
			s.applyCM(nil)
		default:
			s.applyCM(c.firstCM)
		}
		s.r.Probe("cfg-availability-probe")
	}
	_ = mBefore
	s.r.Event("reconcile %s err=%v nodeWrites=%d nrtWrites=%d meta=%d", req.Name, err != nil, len(c.nodeWrites), len(c.nrtWrites), c.metaWrites)
	s.checkReconcile(req, c, err)
}

// ---------------------------------------------------------------- clock

func (s *nrSim) nextTimed() (time.Time, bool) {
	var t time.Time
	ok := false
	up := func(x time.Time) {
		if !ok || x.Before(t) {
			t, ok = x, true
		}
	}
	for _, n := range s.nodes {
		if n.delayed != nil {
			up(n.blocked)
		}
		if n.koordletUp {
			up(n.nextTick)
		}
	}
	up(s.nextSync)
	if d, has := s.q.nextDue(); has {
		up(d)
	}
	return t, ok
}

func (s *nrSim) fireDue() {
	now := time.Now()
	for _, n := range s.nodes {
		if n.delayed != nil && !n.blocked.After(now) {
			if s.nodeObj(n) != nil {
				s.writeReport(n, n.delayed)
				s.r.Probe("report-arrived-late")
			}
			n.delayed = nil
		}
		for n.koordletUp && !n.nextTick.After(now) {
			at := n.nextTick
			n.nextTick = n.nextTick.Add(time.Duration(s.cfg.ReportSec) * time.Second)
			if n.nextTick.After(now) { // only the latest missed round is reported
				s.tick(n, at)
			}
		}
	}
	for !s.nextSync.After(now) {
		s.nextSync = s.nextSync.Add(time.Duration(s.cfg.SyncSec) * time.Second)
		if s.nextSync.After(now) {
			for _, n := range s.nodes {
				cur := s.nodeObj(n)
				if cur == nil {
					continue
				}
				if s.r.Flip(0.5) {
					s.heartbeat(n.name) // the kubelet's periodic node status report
				} else {
					s.st.pending[nrKindNode] = append(s.st.pending[nrKindNode], &nrEvent{kind: nrKindNode, typ: "update", key: "/" + n.name, old: cur, new: cur, rv: 0})
				}
			}
			s.r.Event("sync tick")
		}
	}
	s.q.release(now)
}

func (s *nrSim) advance(d time.Duration) {
	end := time.Now().Add(d)
	for steps := 0; ; steps++ {
		if steps > 20000 {
			s.r.HarnessFail("advance does not terminate")
		}
		next, ok := s.nextTimed()
		if !ok || next.After(end) {
			break
		}
		if w := next.Sub(time.Now()); w > 0 {
			time.Sleep(w)
		}
		s.fireDue()
		s.pump()
	}
	if w := end.Sub(time.Now()); w > 0 {
		time.Sleep(w)
	}
	s.fireDue()
	s.pump()
}

// ---------------------------------------------------------------- end of run: settle + bounded liveness

func (s *nrSim) finish() {
	r := s.r
	s.faultsOff, s.noHold = true, true
	s.pump()
	s.settleAt = time.Now()
	maxDeg := int64(1)
	for _, n := range s.nodes {
		cur := s.nodeObj(n)
		if cur == nil {
			continue
		}
		if n.koordletUp && r.Flip(0.5) {
			n.koordletUp = false
			r.Event("settle: koordlet %s stops", n.name)
			if s.cfg.SettleDel && s.st.latest(nrKindMetric, "/"+n.name) != nil && r.Flip(0.5) {
				// ... for good: the koordlet is uninstalled and its NodeMetric removed
				s.st.del(nrKindMetric, "/"+n.name)
				r.Event("settle: metric %s deleted", n.name)
				r.Probe("settle-nodemetric-deleted")
				if s.published(cur) {
					r.Probe("nodemetric-deleted-while-amounts-published")
				}
			}
		}
		if eff, ok := s.effective(cur); ok && eff.degradeMin > maxDeg {
			maxDeg = eff.degradeMin
		}
	}
	s.advance(time.Duration(maxDeg*60+2*s.cfg.SyncSec+90) * time.Second)
	s.checkLiveness()
	for _, n := range s.nodes {
		cur := s.nodeObj(n)
		if cur == nil {
			r.Event("final %s absent", n.name)
			continue
		}
		var parts []string
		for _, rn := range nrExtNames {
			if q, ok := cur.Status.Allocatable[rn]; ok {
				parts = append(parts, fmt.Sprintf("%s=%d", rn, q.Value()))
			}
		}
		r.Event("final %s %s", n.name, strings.Join(parts, " "))
	}
	r.Sample("reconciles=%d settle=%s", s.nrec, time.Since(s.settleAt))
	if d := s.deferred; d != nil {
		r.Fail(d[0], d[1], "%s", d[2])
	}
}
