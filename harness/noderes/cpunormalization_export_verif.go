//go:build verif

package cpunormalization

// Export shim for the /verif `noderes` engine (C09). It only ADDS identifiers.
// The CPUNormalization plugin is kept in the plugin chain (with its default, disabled, config)
// because it is the plugin that makes the reconciler PATCH node metadata (ratio annotation):
// Plugin.Setup needs a controller builder, so the harness assigns the two package variables.

import (
	"k8s.io/client-go/tools/record"
	ctrlclient "sigs.k8s.io/controller-runtime/pkg/client"
)

// VerifSetup mirrors Plugin.Setup minus scheme registration and builder.Watches.
func VerifSetup(c ctrlclient.Client, recorder record.EventRecorder) {
	client = c
	cfgHandler = newConfigHandler(c, DefaultCPUNormalizationCfg(), recorder)
}
