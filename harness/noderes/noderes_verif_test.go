//go:build verif

package noderesource

// Engine `noderes` (C09), part 1 of 4: plan types and workload generation.
//
// The real NodeResourceReconciler.Reconcile (with the real MidResource, BatchResource and
// CPUNormalization plugins registered through the package's own addPlugins, the real colocation
// config cache, the real NodeMetric / NodeResourceTopology / ConfigMap event handlers) runs on a
// simulated work queue against a simulated API server + informer cache. A koordlet stub publishes
// NodeMetric reports (late, lost, skewed), a placer stub creates / deletes / completes pods, a user
// changes the strategy ConfigMap and node metadata, the kubelet reports node status, the controller
// restarts. See /verif/DESIGN.md §4 C09 and the other three files of this harness:
//   noderes_store_verif_test.go  (API store, cache view, faults, work queue)
//   noderes_exec_verif_test.go   (execution: stubs, informer transport, worker, clock)
//   noderes_oracle_verif_test.go (oracles written from the statement of C09)

import (
	"runtime/debug"
	"testing"

	"github.com/go-logr/logr"
	"k8s.io/klog/v2"

	sim "github.com/koordinator-sh/koordinator/pkg/verifsim"
)

func init() {
	// the code under test logs every degradation / failed update: keep the workers quiet
	klog.SetLogger(logr.Discard())
	// the code under test allocates a map per resource list operation; runs are tiny, so trade memory for GC time
	debug.SetGCPercent(800)
}

func TestVerifSim(t *testing.T) { sim.Main(t, &nrEngine{}) }

type nrEngine struct{}

func (nrEngine) Name() string { return "noderes" }

const (
	nrGi = int64(1) << 30
	nrMi = int64(1) << 20
)

// nrStrategy is one layer of colocation strategy settings (nil = not specified at this layer).
// The JSON names are those of configuration.ColocationStrategy, so that the same struct renders
// the ConfigMap / node annotation and feeds the harness's own (independent) layering model.
type nrStrategy struct {
	Enable       *bool    `json:"enable,omitempty"`
	CPUReclaim   *int64   `json:"cpuReclaimThresholdPercent,omitempty"`
	MemReclaim   *int64   `json:"memoryReclaimThresholdPercent,omitempty"`
	CPUPolicy    *string  `json:"cpuCalculatePolicy,omitempty"`
	MemPolicy    *string  `json:"memoryCalculatePolicy,omitempty"`
	Degrade      *int64   `json:"degradeTimeMinutes,omitempty"`
	UpdateSec    *int64   `json:"updateTimeThresholdSeconds,omitempty"`
	Diff         *float64 `json:"resourceDiffThreshold,omitempty"`
	BatchCPUPct  *int64   `json:"batchCPUThresholdPercent,omitempty"`
	BatchMemPct  *int64   `json:"batchMemoryThresholdPercent,omitempty"`
	MidMode      *string  `json:"midReclaimMode,omitempty"`
	MidCPUPct    *int64   `json:"midCPUThresholdPercent,omitempty"`
	MidMemPct    *int64   `json:"midMemoryThresholdPercent,omitempty"`
	MidUnalloc   *int64   `json:"midUnallocatedPercent,omitempty"`
	MidStaticCPU *int64   `json:"midStaticCPUReservedPercent,omitempty"`
	MidStaticMem *int64   `json:"midStaticMemoryReservedPercent,omitempty"`
}

type nrNodeCfgEntry struct {
	Pool     string     `json:"pool"` // matchLabels: pool=<Pool>
	Strategy nrStrategy `json:"strategy"`
}

// nrCMCfg is the content of the slo-controller ConfigMap as the user writes it.
type nrCMCfg struct {
	Cluster     nrStrategy       `json:"cluster"`
	NodeConfigs []nrNodeCfgEntry `json:"node_configs,omitempty"`
	Invalid     string           `json:"invalid,omitempty"` // "" | degrade0 | negpct | midpct | diff0 | badjson : a config the controller must refuse
	Empty       bool             `json:"empty,omitempty"`   // no colocation-config key at all
	Delete      bool             `json:"delete,omitempty"`  // delete the ConfigMap
}

type nrHostApp struct {
	Name string `json:"name"`
	Prio string `json:"prio"` // prod | mid | batch
}

type nrNodeCfg struct {
	CPU      int64       `json:"cpu"` // capacity, milli
	Mem      int64       `json:"mem"` // capacity, bytes
	KResCPU  int64       `json:"kres_cpu"`
	KResMem  int64       `json:"kres_mem"`
	Pool     string      `json:"pool,omitempty"`
	Zones    int         `json:"zones,omitempty"` // 0 = no NodeResourceTopology
	Uneven   bool        `json:"uneven,omitempty"`
	SkewS    int64       `json:"skew_s,omitempty"` // koordlet clock minus controller clock, seconds
	HostApps []nrHostApp `json:"host_apps,omitempty"`
	// AnnoRes: the node is registered with a node.koordinator.sh/reservation annotation (What = anno_res)
	AnnoRes *nrNodeChange `json:"anno_res,omitempty"`
}

type nrCfg struct {
	Nodes     []nrNodeCfg `json:"nodes"`
	CM        *nrCMCfg    `json:"cm,omitempty"` // nil: no ConfigMap at start
	ReportSec int64       `json:"report_s"`
	SyncSec   int64       `json:"sync_s"` // kubelet node status report / informer resync period
	Lag       bool        `json:"lag"`    // informer deliveries may be held back even without the stale-read fault
	Seed      uint64      `json:"seed"`   // derives the content of periodic koordlet reports
	// SettleDel: in the settle phase a koordlet that stops may be uninstalled together with its NodeMetric object
	// (a cfg switch, not a tape choice of every run: plans recorded before it existed replay unchanged)
	SettleDel bool `json:"settle_del,omitempty"`
}

type nrPodSpec struct {
	Class string `json:"class"`         // prod | mid | batch | free | none
	QoS   string `json:"qos,omitempty"` // LSE | LSR | LS | BE | "" (no koordinator QoS label)
	ByVal bool   `json:"by_val,omitempty"`
	CPU   int64  `json:"cpu"`
	Mem   int64  `json:"mem"`
	Split bool   `json:"split,omitempty"` // two containers
	NUMA  []int  `json:"numa,omitempty"`
	Phase string `json:"phase"` // Pending | Running
}

type nrNodeChange struct {
	What    string      `json:"what"` // anno_res | kubelet_res | capacity | label_ratio | anno_strategy | strip_ratio_anno | heartbeat | delete | create | pool
	CPU     int64       `json:"cpu,omitempty"`
	Mem     int64       `json:"mem,omitempty"`
	CPUs    int         `json:"cpus,omitempty"` // anno_res: reservedCPUs "0-(CPUs-1)" instead of resources.cpu
	Ratio   string      `json:"ratio,omitempty"`
	Res     string      `json:"res,omitempty"` // label_ratio: cpu | mem
	Strat   *nrStrategy `json:"strat,omitempty"`
	Pool    string      `json:"pool,omitempty"`
	Removal bool        `json:"removal,omitempty"`
	// anno_res: applyPolicy of the reservation annotation ("" | Default | ReservedCPUsOnly | an unknown value). It says how
	// the reserved CPUs are exposed to the scheduler / pods, never how much is reserved.
	Policy string `json:"policy,omitempty"`
}

type nrReport struct {
	LateS   int64 `json:"late_s,omitempty"`  // UpdateTime = now - LateS (+ skew)
	NoSys   bool  `json:"no_sys,omitempty"`  // system usage could not be computed
	NoNode  bool  `json:"no_node,omitempty"` // node usage missing
	NoRecl  int   `json:"no_recl,omitempty"` // 0 value, 1 nil, 2 empty
	PNew    int   `json:"p_new"`             // % chance a pod younger than one report interval is reported
	POld    int   `json:"p_old"`             // % chance an older pod is reported
	PGone   int   `json:"p_gone"`            // % chance a recently deleted/finished pod is still reported
	SysKind int   `json:"sys_kind"`
}

type nrOp struct {
	K    string        `json:"k"` // advance | report | koordlet | metric | pod_add | pod_del | pod_phase | cfg | node | nrt | restart | pump
	N    int           `json:"n,omitempty"`
	P    int           `json:"p,omitempty"`
	D    int64         `json:"d,omitempty"` // seconds
	S    uint64        `json:"s,omitempty"`
	Up   bool          `json:"up,omitempty"` // koordlet: start / stop; metric: the NodeMetric object is (re-)created empty / deleted
	To   string        `json:"to,omitempty"` // pod_phase: Running | Succeeded | Failed
	Pod  *nrPodSpec    `json:"pod,omitempty"`
	Cfg  *nrCMCfg      `json:"cfg,omitempty"`
	Node *nrNodeChange `json:"node,omitempty"`
	Rep  *nrReport     `json:"rep,omitempty"`
	Z    int           `json:"z,omitempty"` // nrt: new zone count (0 = delete)
}

func nrP[T any](v T) *T { return &v }

// ---------------------------------------------------------------- generation

var nrCPUCaps = []int64{4000, 8000, 16000, 32000, 64000, 96000, 7900, 15500}
var nrMemCaps = []int64{8 * nrGi, 16 * nrGi, 32 * nrGi, 64 * nrGi, 128 * nrGi, 256 * nrGi, 15*nrGi + 517*nrMi + 13, 1000000007 * 31}

func nrGenStrategyFull(g *sim.Rng) nrStrategy {
	s := nrStrategy{
		Enable:     nrP(!g.Bool(0.06)),
		CPUReclaim: nrP(g.PickI64(0, 30, 50, 60, 65, 70, 85, 100, int64(g.Intn(101)))),
		MemReclaim: nrP(g.PickI64(0, 40, 60, 65, 70, 90, 100, int64(g.Intn(101)))),
		CPUPolicy:  nrP(g.Pick("usage", "usage", "maxUsageRequest")),
		MemPolicy:  nrP(g.Pick("usage", "usage", "request", "maxUsageRequest")),
		Degrade:    nrP(g.PickI64(1, 1, 2, 3, 5, 15)),
		UpdateSec:  nrP(g.PickI64(1, 30, 60, 120, 300)),
		Diff:       nrP([]float64{0.01, 0.05, 0.1, 0.1, 0.2, 0.5}[g.Intn(6)]),
		MidCPUPct:  nrP(g.PickI64(0, 10, 50, 100, 100, int64(g.Intn(101)))),
		MidMemPct:  nrP(g.PickI64(0, 10, 50, 100, 100, int64(g.Intn(101)))),
		MidUnalloc: nrP(g.PickI64(0, 0, 20, 50, 100)),
		// the static percents are always given so that no implementation default matters
		MidStaticCPU: nrP(g.PickI64(0, 10, 30, 100)),
		MidStaticMem: nrP(g.PickI64(0, 10, 30, 100)),
	}
	if g.Bool(0.35) {
		s.BatchCPUPct = nrP(g.PickI64(0, 10, 30, 50, 80, 100, 150))
	}
	if g.Bool(0.35) {
		s.BatchMemPct = nrP(g.PickI64(0, 10, 30, 50, 80, 100, 150))
	}
	if g.Bool(0.25) {
		s.MidMode = nrP("static")
	}
	return s
}

func nrGenStrategyPartial(g *sim.Rng) nrStrategy {
	s := nrStrategy{}
	for i, n := 0, g.Range(1, 3); i < n; i++ {
		switch g.Intn(8) {
		case 0:
			s.CPUReclaim = nrP(g.PickI64(0, 40, 60, 80, 100))
		case 1:
			s.MemReclaim = nrP(g.PickI64(0, 40, 60, 80, 100))
		case 2:
			s.MemPolicy = nrP(g.Pick("usage", "request", "maxUsageRequest"))
		case 3:
			s.CPUPolicy = nrP(g.Pick("usage", "maxUsageRequest"))
		case 4:
			s.Degrade = nrP(g.PickI64(1, 2, 10))
		case 5:
			s.BatchCPUPct = nrP(g.PickI64(0, 20, 60))
		case 6:
			s.BatchMemPct = nrP(g.PickI64(0, 20, 60))
		case 7:
			s.Enable = nrP(g.Bool(0.7))
		}
	}
	return s
}

func nrGenCM(g *sim.Rng) *nrCMCfg {
	c := &nrCMCfg{Cluster: nrGenStrategyFull(g)}
	if g.Bool(0.35) {
		for i, n := 0, g.Range(1, 2); i < n; i++ {
			c.NodeConfigs = append(c.NodeConfigs, nrNodeCfgEntry{Pool: g.Pick("a", "b"), Strategy: nrGenStrategyPartial(g)})
		}
	}
	return c
}

func nrGenPod(g *sim.Rng, zones int) *nrPodSpec {
	p := &nrPodSpec{Phase: "Running"}
	if g.Bool(0.2) {
		p.Phase = "Pending"
	}
	switch x := g.Intn(100); {
	case x < 30:
		p.Class, p.QoS = "prod", "LS"
	case x < 38:
		p.Class, p.QoS = "prod", "LSR"
	case x < 46:
		p.Class, p.QoS = "prod", "LSE"
	case x < 58:
		p.Class, p.QoS = "mid", g.Pick("LS", "BE")
	case x < 72:
		p.Class, p.QoS = "batch", "BE"
	case x < 78:
		p.Class, p.QoS = "free", "BE"
	case x < 86:
		p.Class, p.QoS = "none", g.Pick("LS", "LSR", "BE")
	default:
		p.Class, p.QoS = "none", ""
	}
	p.ByVal = p.Class != "none" && g.Bool(0.4)
	p.CPU = g.PickI64(0, 100, 250, 333, 500, 1000, 2000, 4000, 16000)
	p.Mem = g.PickI64(0, 64*nrMi, 256*nrMi, nrGi, 4*nrGi, 32*nrGi, 1000000007)
	if p.QoS == "LSE" || p.QoS == "LSR" {
		p.CPU = g.PickI64(1000, 2000, 4000, 8000)
		if p.Mem == 0 {
			p.Mem = nrGi
		}
	}
	p.Split = g.Bool(0.25)
	if zones > 0 && (p.QoS == "LSE" || p.QoS == "LSR" || g.Bool(0.15)) {
		switch g.Intn(4) {
		case 0, 1:
			p.NUMA = []int{g.Intn(zones)}
		case 2:
			p.NUMA = []int{0, zones - 1}
			if zones == 1 {
				p.NUMA = []int{0}
			}
		case 3:
			p.NUMA = []int{g.Intn(zones), zones + 1} // one id the node does not have
		}
	}
	return p
}

// nrGenAnnoRes fills a node reservation annotation: amounts from below the kubelet reservation to well above it and
// above typical system usage, as a resource list and / or a reserved cpuset, under every applyPolicy the API defines.
func nrGenAnnoRes(g *sim.Rng, ch *nrNodeChange) {
	ch.What = "anno_res"
	ch.CPU, ch.Mem = g.PickI64(0, 500, 2000, 8000, 16000), g.PickI64(0, nrGi, 8*nrGi, 32*nrGi)
	if g.Bool(0.3) {
		ch.CPUs = g.PickInt(1, 2, 4, 8)
	}
	ch.Policy = g.Pick("", "", "Default", "ReservedCPUsOnly", "ReservedCPUsOnly", "SomethingNew")
}

func nrGenReport(g *sim.Rng) *nrReport {
	r := &nrReport{PNew: g.PickInt(0, 30, 100), POld: g.PickInt(100, 100, 90, 50), PGone: g.PickInt(0, 50, 100), SysKind: g.Intn(8)}
	switch g.Intn(10) {
	case 0:
		r.LateS = g.PickI64(30, 90, 200, 400, 1000, 3000)
	case 1:
		r.LateS = -g.PickI64(5, 30, 120)
	}
	r.NoSys = g.Bool(0.06)
	r.NoNode = g.Bool(0.06)
	if g.Bool(0.2) {
		r.NoRecl = 1 + g.Intn(2)
	}
	return r
}

var nrFaultKinds = []string{"err-before", "err-after", "conflict", "stale-read", "lost", "delayed"}

func (nrEngine) Generate(p *sim.Plan, g *sim.Rng) {
	thorough := p.Tier == "thorough"
	cfg := nrCfg{ReportSec: g.PickI64(60, 120, 300, 300), SyncSec: g.PickI64(90, 150, 300), Lag: g.Bool(0.3), Seed: g.U64()}
	cfg.SettleDel = g.Bool(0.3)
	nn := g.Range(1, 2)
	if thorough || g.Bool(0.2) {
		nn = g.Range(1, 3)
	}
	for i := 0; i < nn; i++ {
		n := nrNodeCfg{CPU: nrCPUCaps[g.Intn(len(nrCPUCaps))], Mem: nrMemCaps[g.Intn(len(nrMemCaps))]}
		n.KResCPU = g.PickI64(0, 100, 500, 1000, 2000)
		n.KResMem = g.PickI64(0, 256*nrMi, nrGi, 4*nrGi)
		if g.Bool(0.5) {
			n.Pool = g.Pick("a", "b")
		}
		if g.Bool(0.4) {
			n.Zones = g.PickInt(1, 2, 2, 3, 4)
			n.Uneven = g.Bool(0.3)
		}
		switch g.Intn(6) {
		case 0:
			n.SkewS = g.PickI64(-30, -5, 5, 30)
		case 1:
			n.SkewS = g.PickI64(-600, 240, 900)
		}
		for j, k := 0, g.PickInt(0, 0, 1, 2); j < k; j++ {
			n.HostApps = append(n.HostApps, nrHostApp{Name: []string{"yarn", "agent", "hdfs"}[j], Prio: g.Pick("prod", "mid", "batch")})
		}
		if g.Bool(0.25) {
			n.AnnoRes = &nrNodeChange{}
			nrGenAnnoRes(g, n.AnnoRes)
		}
		cfg.Nodes = append(cfg.Nodes, n)
	}
	if !g.Bool(0.05) {
		cfg.CM = nrGenCM(g)
		cfg.CM.Cluster.Enable = nrP(true)
	}
	if g.Bool(0.8) {
		p.FaultRate = []float64{0.01, 0.03, 0.06, 0.12}[g.Intn(4)]
		perm := g.Perm(len(nrFaultKinds))
		for i, k := 0, g.Range(1, 3); i < k; i++ {
			p.Faults = append(p.Faults, nrFaultKinds[perm[i]])
		}
	}

	deg := int64(15)
	if cfg.CM != nil && cfg.CM.Cluster.Degrade != nil {
		deg = *cfg.CM.Cluster.Degrade
	}
	var ops []nrOp
	npods := 0
	metricGone := map[int]bool{}
	addPod := func(n int) {
		npods++
		ops = append(ops, nrOp{K: "pod_add", N: n, P: npods, Pod: nrGenPod(g, cfg.Nodes[n].Zones)})
	}
	// a populated start: pods, then a first report round
	for n := range cfg.Nodes {
		for i, k := 0, g.Range(0, 4); i < k; i++ {
			addPod(n)
		}
	}
	ops = append(ops, nrOp{K: "advance", D: cfg.ReportSec + g.PickI64(0, 1, 7)})
	total := g.Range(8, 34)
	if thorough {
		total = g.Range(8, 70)
	}
	for len(ops) < total {
		n := g.Intn(nn)
		if metricGone[n] && g.Bool(0.2) {
			// the nodemetric controller usually brings a missing NodeMetric back before long
			metricGone[n] = false
			ops = append(ops, nrOp{K: "metric", N: n, Up: true})
			continue
		}
		switch x := g.Intn(100); {
		case x < 22:
			// mostly around the report interval, sometimes beyond the degrade time
			rs := cfg.ReportSec
			ops = append(ops, nrOp{K: "advance", D: g.PickI64(1, 10, rs/2, rs+1, rs+1, rs*3/2, 3*rs, 3*rs, 6*rs, deg*60+5, 2*deg*60+30, 3*deg*60+rs)})
		case x < 40:
			ops = append(ops, nrOp{K: "report", N: n, S: g.U64(), Rep: nrGenReport(g)})
		case x < 55:
			addPod(n)
		case x < 62:
			if npods > 0 {
				ops = append(ops, nrOp{K: "pod_del", P: 1 + g.Intn(npods)})
			}
		case x < 67:
			if npods > 0 {
				ops = append(ops, nrOp{K: "pod_phase", P: 1 + g.Intn(npods), To: g.Pick("Running", "Succeeded", "Failed")})
			}
		case x < 75:
			c := nrGenCM(g)
			switch y := g.Intn(20); {
			case y == 0:
				c.Invalid = g.Pick("degrade0", "negpct", "midpct", "diff0", "badjson")
			case y == 1:
				c.Empty = true
			case y == 2:
				c.Delete = true
			}
			ops = append(ops, nrOp{K: "cfg", Cfg: c})
		case x < 84:
			ch := &nrNodeChange{}
			switch y := g.Intn(20); {
			case y < 5:
				nrGenAnnoRes(g, ch)
				ch.Removal = g.Bool(0.15)
			case y < 8:
				ch.What = "kubelet_res"
				ch.CPU, ch.Mem = g.PickI64(0, 100, 1000, 4000), g.PickI64(0, 512*nrMi, 2*nrGi, 16*nrGi)
			case y < 10:
				ch.What = "capacity"
				ch.CPU, ch.Mem = nrCPUCaps[g.Intn(len(nrCPUCaps))], nrMemCaps[g.Intn(len(nrMemCaps))]
			case y < 12:
				ch.What, ch.Res, ch.Ratio = "label_ratio", g.Pick("cpu", "mem"), g.Pick("0.25", "0.5", "0.75", "1")
				ch.Removal = g.Bool(0.2)
			case y < 14:
				ch.What, ch.Strat = "anno_strategy", nrP(nrGenStrategyPartial(g))
				ch.Removal = g.Bool(0.2)
			case y < 15:
				ch.What = "strip_ratio_anno"
			case y < 17:
				ch.What = "heartbeat"
			case y < 18:
				ch.What = "delete"
			case y < 19:
				ch.What = "create"
			default:
				ch.What, ch.Pool = "pool", g.Pick("", "a", "b")
			}
			ops = append(ops, nrOp{K: "node", N: n, Node: ch})
		case x < 89:
			ops = append(ops, nrOp{K: "koordlet", N: n, Up: g.Bool(0.45)})
		case x < 92:
			ops = append(ops, nrOp{K: "restart"})
		case x < 95:
			ops = append(ops, nrOp{K: "nrt", N: n, Z: g.PickInt(0, 1, 2, 2, 3, 4), S: g.U64()})
		case x < 98:
			// the NodeMetric object of the node disappears (koordlet uninstalled, CR deleted by an operator or by a
			// nodemetric controller that lost sight of the node) / is created again, empty, by the nodemetric controller
			up := g.Bool(0.3)
			if g.Bool(0.8) {
				up = metricGone[n] // usually the applicable one (node deletion / re-creation is not tracked here: the op re-checks)
			}
			metricGone[n] = !up
			ops = append(ops, nrOp{K: "metric", N: n, Up: up})
		default:
			ops = append(ops, nrOp{K: "pump"})
		}
	}
	p.SetCfg(cfg)
	p.SetOps(ops)
}
