//go:build verif

package noderesource

// Engine `noderes` (C09), part 2 of 4: the simulated API server + informer cache the real
// reconciler talks to (a client.Client), and the simulated controller work queue.
//
// Store: every object version ever written is kept (kind -> key -> versions). The controller
// reads through an *informer cache view*: per kind, the cache has seen every write up to
// cacheRV[kind]; it advances only when the transport delivers an event of that kind. Writes go
// to the latest state with optimistic concurrency on resourceVersion, like the API server.

import (
	"context"
	"encoding/json"
	"sort"
	"strconv"
	"time"

	topologyv1alpha1 "github.com/k8stopologyawareschedwg/noderesourcetopology-api/pkg/apis/topology/v1alpha1"
	corev1 "k8s.io/api/core/v1"
	apierrors "k8s.io/apimachinery/pkg/api/errors"
	metav1 "k8s.io/apimachinery/pkg/apis/meta/v1"
	"k8s.io/apimachinery/pkg/runtime/schema"
	"sigs.k8s.io/controller-runtime/pkg/client"
	"sigs.k8s.io/controller-runtime/pkg/reconcile"

	slov1alpha1 "github.com/koordinator-sh/koordinator/apis/slo/v1alpha1"
)

const (
	nrKindCM     = "cm"
	nrKindNode   = "node"
	nrKindMetric = "metric"
	nrKindPod    = "pod"
	nrKindNRT    = "nrt"
)

var nrKinds = []string{nrKindCM, nrKindNode, nrKindMetric, nrKindPod, nrKindNRT}

var nrGR = map[string]schema.GroupResource{
	nrKindCM:     {Resource: "configmaps"},
	nrKindNode:   {Resource: "nodes"},
	nrKindMetric: {Group: "slo.koordinator.sh", Resource: "nodemetrics"},
	nrKindPod:    {Resource: "pods"},
	nrKindNRT:    {Group: "topology.node.k8s.io", Resource: "noderesourcetopologies"},
}

type nrVer struct {
	rv  int64
	obj client.Object // nil = deleted
}

type nrEvent struct {
	kind, typ string // typ: add | update | delete
	key       string
	old, new  client.Object
	rv        int64
}

type nrNodeWrite struct{ old, new *corev1.Node }
type nrNRTWrite struct {
	old, new *topologyv1alpha1.NodeResourceTopology
}

// nrCapture is what one Reconcile call read and wrote.
type nrCapture struct {
	calls      int
	firstIsCM  bool
	firstCM    *corev1.ConfigMap
	firstCMErr string // "" | notfound | err
	node       *corev1.Node
	nodeGets   int
	nodeGone   bool // a later node Get answered NotFound / error
	metricRead bool
	metric     *slov1alpha1.NodeMetric // nil when NotFound
	pods       *corev1.PodList
	calcNow    time.Time
	nrtRead    bool
	nrt        *topologyv1alpha1.NodeResourceTopology
	nodeWrites []nrNodeWrite
	nrtWrites  []nrNRTWrite
	metaWrites int
	readErrs   int
}

type nrStore struct {
	client.Client // nil: every method the reconciler does not use panics (harness trouble)
	s             *nrSim
	rv            int64
	hist          map[string]map[string][]nrVer
	cacheRV       map[string]int64
	pending       map[string][]*nrEvent
	held          map[string]bool
	cap           *nrCapture
	quiet         bool // oracle re-evaluation: no faults, no capture
}

func newNRStore(s *nrSim) *nrStore {
	st := &nrStore{s: s, hist: map[string]map[string][]nrVer{}, cacheRV: map[string]int64{}, pending: map[string][]*nrEvent{}, held: map[string]bool{}}
	for _, k := range nrKinds {
		st.hist[k] = map[string][]nrVer{}
	}
	return st
}

func nrKey(o client.Object) string { return o.GetNamespace() + "/" + o.GetName() }

func nrKindOf(o any) string {
	switch o.(type) {
	case *corev1.Node:
		return nrKindNode
	case *slov1alpha1.NodeMetric:
		return nrKindMetric
	case *corev1.ConfigMap:
		return nrKindCM
	case *topologyv1alpha1.NodeResourceTopology:
		return nrKindNRT
	case *corev1.Pod:
		return nrKindPod
	}
	panic("noderes harness: unexpected object type")
}

func nrCopyInto(src, dst client.Object) {
	switch v := src.(type) {
	case *corev1.Node:
		v.DeepCopyInto(dst.(*corev1.Node))
	case *slov1alpha1.NodeMetric:
		v.DeepCopyInto(dst.(*slov1alpha1.NodeMetric))
	case *corev1.ConfigMap:
		v.DeepCopyInto(dst.(*corev1.ConfigMap))
	case *topologyv1alpha1.NodeResourceTopology:
		v.DeepCopyInto(dst.(*topologyv1alpha1.NodeResourceTopology))
	case *corev1.Pod:
		v.DeepCopyInto(dst.(*corev1.Pod))
	default:
		panic("noderes harness: unexpected object type")
	}
}

func (st *nrStore) latest(kind, key string) client.Object {
	vs := st.hist[kind][key]
	if len(vs) == 0 {
		return nil
	}
	return vs[len(vs)-1].obj
}

func (st *nrStore) asOf(kind, key string, rv int64) client.Object {
	vs := st.hist[kind][key]
	for i := len(vs) - 1; i >= 0; i-- {
		if vs[i].rv <= rv {
			return vs[i].obj
		}
	}
	return nil
}

func (st *nrStore) keys(kind string) []string {
	ks := make([]string, 0, len(st.hist[kind]))
	for k := range st.hist[kind] {
		ks = append(ks, k)
	}
	sort.Strings(ks)
	return ks
}

// put stores a new version (obj must not be shared with anybody who mutates it) and queues the watch event.
func (st *nrStore) put(kind string, obj client.Object) {
	st.rv++
	obj.SetResourceVersion(strconv.FormatInt(st.rv, 10))
	key := nrKey(obj)
	old := st.latest(kind, key)
	typ := "update"
	if old == nil {
		typ = "add"
		obj.SetCreationTimestamp(metav1.NewTime(time.Now()))
	} else {
		obj.SetCreationTimestamp(old.GetCreationTimestamp())
	}
	st.hist[kind][key] = append(st.hist[kind][key], nrVer{st.rv, obj})
	st.pending[kind] = append(st.pending[kind], &nrEvent{kind: kind, typ: typ, key: key, old: old, new: obj, rv: st.rv})
}

func (st *nrStore) del(kind, key string) {
	old := st.latest(kind, key)
	if old == nil {
		return
	}
	st.rv++
	st.hist[kind][key] = append(st.hist[kind][key], nrVer{st.rv, nil})
	st.pending[kind] = append(st.pending[kind], &nrEvent{kind: kind, typ: "delete", key: key, old: old, rv: st.rv})
}

func (st *nrStore) fault(site string, kinds ...string) string {
	if st.quiet || st.s.faultsOff {
		return ""
	}
	return st.s.r.Fault(site, kinds...)
}

// errBefore picks the flavour of a request that failed without being applied.
func (st *nrStore) errBefore(retriable bool) error {
	n := 3
	if retriable {
		n = 4
	}
	switch st.s.r.Choose(n) {
	case 0:
		return apierrors.NewInternalError(context.DeadlineExceeded)
	case 1:
		return apierrors.NewTimeoutError("simulated timeout", 1)
	case 2:
		return apierrors.NewServiceUnavailable("simulated unavailable")
	}
	st.s.r.Probe("fault-429")
	return apierrors.NewTooManyRequests("simulated 429", 1)
}

// ---------------------------------------------------------------- reads (informer cache view)

func (st *nrStore) Get(_ context.Context, key client.ObjectKey, obj client.Object, _ ...client.GetOption) error {
	kind := nrKindOf(obj)
	k := key.Namespace + "/" + key.Name
	c := st.cap
	if st.quiet {
		c = nil
	}
	first := false
	if c != nil {
		c.calls++
		first = c.calls == 1
		if first && kind == nrKindCM {
			c.firstIsCM = true
		}
		if kind == nrKindNode {
			c.nodeGets++
			// a retry after a conflict comes >= 10ms later: the informer cache has usually caught up by then
			if c.nodeGets >= 2 && len(c.nodeWrites) == 0 && !st.held[nrKindNode] && st.cacheRV[nrKindNode] < st.rv && st.s.r.Flip(0.6) {
				st.cacheRV[nrKindNode] = st.rv
				st.s.r.Probe("cache-caught-up-during-retry")
			}
		}
	}
	if f := st.fault("get-"+kind, "err-before"); f != "" {
		if c != nil {
			c.readErrs++
			if first && kind == nrKindCM {
				c.firstCMErr = "err"
			}
			if kind == nrKindNode && c.nodeGets >= 2 {
				c.nodeGone = true
			}
		}
		return st.errBefore(false)
	}
	o := st.asOf(kind, k, st.cacheRV[kind])
	if c != nil && o != st.latest(kind, k) {
		st.s.r.Probe("stale-read-" + kind)
	}
	if o == nil {
		if c != nil {
			switch {
			case first && kind == nrKindCM:
				c.firstCMErr = "notfound"
			case kind == nrKindNode && c.nodeGets >= 2:
				c.nodeGone = true
			case kind == nrKindMetric && !c.metricRead:
				c.metricRead = true
			case kind == nrKindNRT && !c.nrtRead:
				c.nrtRead = true
			}
		}
		return apierrors.NewNotFound(nrGR[kind], key.Name)
	}
	nrCopyInto(o, obj)
	if c != nil {
		switch v := o.(type) {
		case *corev1.ConfigMap:
			if first {
				c.firstCM = v
			}
		case *corev1.Node:
			if c.node == nil && c.nodeGets == 1 {
				c.node = v
			}
		case *slov1alpha1.NodeMetric:
			if !c.metricRead {
				c.metricRead, c.metric = true, v
			}
		case *topologyv1alpha1.NodeResourceTopology:
			if !c.nrtRead {
				c.nrtRead, c.nrt = true, v
			}
		}
	}
	return nil
}

func (st *nrStore) List(_ context.Context, list client.ObjectList, opts ...client.ListOption) error {
	lo := &client.ListOptions{}
	lo.ApplyOptions(opts)
	c := st.cap
	if st.quiet {
		c = nil
	}
	if c != nil {
		c.calls++
	}
	switch l := list.(type) {
	case *corev1.PodList:
		if f := st.fault("list-pods", "err-before"); f != "" {
			if c != nil {
				c.readErrs++
			}
			return st.errBefore(false)
		}
		nodeName := ""
		if lo.FieldSelector != nil {
			if v, ok := lo.FieldSelector.RequiresExactMatch("spec.nodeName"); ok {
				nodeName = v
			}
		}
		l.Items = l.Items[:0]
		stale := false
		for _, k := range st.keys(nrKindPod) {
			o := st.asOf(nrKindPod, k, st.cacheRV[nrKindPod])
			if o != st.latest(nrKindPod, k) {
				stale = true
			}
			if o == nil {
				continue
			}
			p := o.(*corev1.Pod)
			if nodeName != "" && p.Spec.NodeName != nodeName {
				continue
			}
			l.Items = append(l.Items, *p.DeepCopy())
		}
		if c != nil {
			if stale {
				st.s.r.Probe("stale-read-pod")
			}
			if c.pods == nil {
				c.pods = l.DeepCopy()
				c.calcNow = time.Now()
			}
		}
		return nil
	case *corev1.NodeList:
		if f := st.fault("list-nodes", "err-before"); f != "" {
			st.s.r.Probe("node-list-failed-in-config-fanout")
			// the fan-out of a config change is lost: no node is enqueued until its next own event
			for _, n := range st.s.nodes {
				st.s.missed[n.name] = true
			}
			return st.errBefore(false)
		}
		l.Items = l.Items[:0]
		for _, k := range st.keys(nrKindNode) {
			if o := st.asOf(nrKindNode, k, st.cacheRV[nrKindNode]); o != nil {
				l.Items = append(l.Items, *o.(*corev1.Node).DeepCopy())
			}
		}
		return nil
	}
	panic("noderes harness: unexpected list type")
}

// ---------------------------------------------------------------- writes (API server)

type nrStatusWriter struct {
	client.SubResourceWriter
	st *nrStore
}

func (st *nrStore) Status() client.SubResourceWriter { return &nrStatusWriter{st: st} }

func (w *nrStatusWriter) Update(_ context.Context, obj client.Object, _ ...client.SubResourceUpdateOption) error {
	st := w.st
	node := obj.(*corev1.Node)
	key := "/" + node.Name
	if st.cap != nil {
		st.cap.calls++
	}
	f := st.fault("status-update", "err-before", "err-after", "conflict")
	if f == "err-before" {
		return st.errBefore(true)
	}
	if f == "conflict" {
		// a concurrent writer (kubelet status report) wins the race
		st.s.heartbeat(node.Name)
	}
	cur, _ := st.latest(nrKindNode, key).(*corev1.Node)
	if cur == nil {
		return apierrors.NewNotFound(nrGR[nrKindNode], node.Name)
	}
	if node.ResourceVersion != "" && node.ResourceVersion != cur.ResourceVersion {
		st.s.r.Probe("status-update-conflict")
		return apierrors.NewConflict(nrGR[nrKindNode], node.Name, context.Canceled)
	}
	nn := cur.DeepCopy()
	nn.Status = *node.Status.DeepCopy()
	nn.Labels = nrCopyMap(node.Labels)
	nn.Annotations = nrCopyMap(node.Annotations)
	st.put(nrKindNode, nn)
	if st.cap != nil {
		st.cap.nodeWrites = append(st.cap.nodeWrites, nrNodeWrite{old: cur, new: nn})
	}
	node.ResourceVersion = nn.ResourceVersion
	if f == "err-after" {
		st.s.r.Probe("status-update-lost-ack")
		return apierrors.NewTimeoutError("simulated lost acknowledgement", 1)
	}
	return nil
}

func nrCopyMap(m map[string]string) map[string]string {
	if m == nil {
		return nil
	}
	out := make(map[string]string, len(m))
	for k, v := range m {
		out[k] = v
	}
	return out
}

// Patch: the reconciler only merge-patches node metadata (a node update through the main resource keeps the old status).
func (st *nrStore) Patch(_ context.Context, obj client.Object, patch client.Patch, _ ...client.PatchOption) error {
	node := obj.(*corev1.Node)
	key := "/" + node.Name
	if st.cap != nil {
		st.cap.calls++
	}
	f := st.fault("meta-patch", "err-before", "err-after", "conflict")
	if f == "err-before" {
		return st.errBefore(true)
	}
	if f == "conflict" {
		st.s.r.Probe("meta-patch-conflict")
		return apierrors.NewConflict(nrGR[nrKindNode], node.Name, context.Canceled)
	}
	data, err := patch.Data(obj)
	if err != nil {
		return err
	}
	cur, _ := st.latest(nrKindNode, key).(*corev1.Node)
	if cur == nil {
		return apierrors.NewNotFound(nrGR[nrKindNode], node.Name)
	}
	var pm struct {
		Metadata struct {
			Labels      map[string]*string `json:"labels"`
			Annotations map[string]*string `json:"annotations"`
		} `json:"metadata"`
	}
	if err := json.Unmarshal(data, &pm); err != nil {
		return apierrors.NewBadRequest(err.Error())
	}
	nn := cur.DeepCopy()
	changed := false
	apply := func(dst *map[string]string, p map[string]*string) {
		ks := make([]string, 0, len(p))
		for k := range p {
			ks = append(ks, k)
		}
		sort.Strings(ks)
		for _, k := range ks {
			v := p[k]
			if v == nil {
				if _, ok := (*dst)[k]; ok {
					delete(*dst, k)
					changed = true
				}
				continue
			}
			if *dst == nil {
				*dst = map[string]string{}
			}
			if (*dst)[k] != *v {
				(*dst)[k] = *v
				changed = true
			}
		}
	}
	apply(&nn.Labels, pm.Metadata.Labels)
	apply(&nn.Annotations, pm.Metadata.Annotations)
	if changed {
		st.put(nrKindNode, nn)
		node.ResourceVersion = nn.ResourceVersion
	}
	if st.cap != nil {
		st.cap.metaWrites++
	}
	st.s.r.Probe("meta-patch-applied")
	if f == "err-after" {
		return apierrors.NewTimeoutError("simulated lost acknowledgement", 1)
	}
	return nil
}

// Update: only the NodeResourceTopology is written with a plain update (batchresource.PreUpdate).
func (st *nrStore) Update(_ context.Context, obj client.Object, _ ...client.UpdateOption) error {
	nrt := obj.(*topologyv1alpha1.NodeResourceTopology)
	key := "/" + nrt.Name
	if st.cap != nil {
		st.cap.calls++
	}
	f := st.fault("nrt-update", "err-before", "err-after", "conflict")
	if f == "err-before" {
		return st.errBefore(true)
	}
	if f == "conflict" {
		// the koordlet rewrites its NRT concurrently
		if cur, _ := st.latest(nrKindNRT, key).(*topologyv1alpha1.NodeResourceTopology); cur != nil {
			st.put(nrKindNRT, cur.DeepCopy())
		}
	}
	cur, _ := st.latest(nrKindNRT, key).(*topologyv1alpha1.NodeResourceTopology)
	if cur == nil {
		return apierrors.NewNotFound(nrGR[nrKindNRT], nrt.Name)
	}
	if nrt.ResourceVersion != "" && nrt.ResourceVersion != cur.ResourceVersion {
		st.s.r.Probe("nrt-update-conflict")
		return apierrors.NewConflict(nrGR[nrKindNRT], nrt.Name, context.Canceled)
	}
	nn := nrt.DeepCopy()
	st.put(nrKindNRT, nn)
	if st.cap != nil {
		st.cap.nrtWrites = append(st.cap.nrtWrites, nrNRTWrite{old: cur, new: nn})
	}
	nrt.ResourceVersion = nn.ResourceVersion
	if f == "err-after" {
		return apierrors.NewTimeoutError("simulated lost acknowledgement", 1)
	}
	return nil
}

// ---------------------------------------------------------------- work queue

type nrDelayed struct {
	at  time.Time
	seq int
	req reconcile.Request
}

// nrQueue is the controller's rate-limiting work queue: FIFO with de-duplication, delayed adds on
// the simulated clock and the default per-item exponential back-off (5ms * 2^n, at most 1000s).
type nrQueue struct {
	order   []reconcile.Request
	in      map[reconcile.Request]bool
	delayed []nrDelayed
	fails   map[reconcile.Request]int
	seq     int
}

func newNRQueue() *nrQueue {
	return &nrQueue{in: map[reconcile.Request]bool{}, fails: map[reconcile.Request]int{}}
}

func (q *nrQueue) Add(req reconcile.Request) {
	if !q.in[req] {
		q.in[req] = true
		q.order = append(q.order, req)
	}
}
func (q *nrQueue) Len() int { return len(q.order) }
func (q *nrQueue) Get() (reconcile.Request, bool) {
	if len(q.order) == 0 {
		return reconcile.Request{}, true
	}
	req := q.order[0]
	q.order = q.order[1:]
	delete(q.in, req)
	return req, false
}
func (q *nrQueue) Done(reconcile.Request) {}
func (q *nrQueue) ShutDown()              {}
func (q *nrQueue) ShutDownWithDrain()     {}
func (q *nrQueue) ShuttingDown() bool     { return false }
func (q *nrQueue) AddAfter(req reconcile.Request, d time.Duration) {
	if d <= 0 {
		q.Add(req)
		return
	}
	q.seq++
	q.delayed = append(q.delayed, nrDelayed{at: time.Now().Add(d), seq: q.seq, req: req})
}
func (q *nrQueue) AddRateLimited(req reconcile.Request) {
	n := q.fails[req]
	q.fails[req] = n + 1
	d := 1000 * time.Second
	if n < 28 {
		if x := 5 * time.Millisecond << uint(n); x < d {
			d = x
		}
	}
	q.AddAfter(req, d)
}
func (q *nrQueue) Forget(req reconcile.Request)          { delete(q.fails, req) }
func (q *nrQueue) NumRequeues(req reconcile.Request) int { return q.fails[req] }

// release moves the delayed items that are due into the queue.
func (q *nrQueue) release(now time.Time) {
	sort.SliceStable(q.delayed, func(i, j int) bool {
		if !q.delayed[i].at.Equal(q.delayed[j].at) {
			return q.delayed[i].at.Before(q.delayed[j].at)
		}
		return q.delayed[i].seq < q.delayed[j].seq
	})
	k := 0
	for k < len(q.delayed) && !q.delayed[k].at.After(now) {
		q.Add(q.delayed[k].req)
		k++
	}
	q.delayed = q.delayed[k:]
}

// waiting: a delayed add (retry after an error) of the request has not come due yet.
func (q *nrQueue) waiting(req reconcile.Request) bool {
	for _, d := range q.delayed {
		if d.req == req {
			return true
		}
	}
	return false
}

func (q *nrQueue) nextDue() (time.Time, bool) {
	var t time.Time
	ok := false
	for _, d := range q.delayed {
		if !ok || d.at.Before(t) {
			t, ok = d.at, true
		}
	}
	return t, ok
}
