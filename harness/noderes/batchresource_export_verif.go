//go:build verif

package batchresource

// Export shim for the /verif `noderes` engine (C09). It only ADDS identifiers.
// Plugin.Setup needs a controller builder and a manager; the harness wires the same three
// package-level variables Setup assigns (client, nrtSyncContext, nrtHandler) directly.

import (
	ctrlclient "sigs.k8s.io/controller-runtime/pkg/client"

	"github.com/koordinator-sh/koordinator/pkg/slo-controller/noderesource/framework"
)

// VerifSetup mirrors Plugin.Setup minus scheme registration and builder.Watches: a fresh sync
// context (what a controller restart gives), the given client, and the real NRT event handler.
func VerifSetup(c ctrlclient.Client) *NRTHandler {
	client = c
	nrtSyncContext = framework.NewSyncContext()
	nrtHandler = &NRTHandler{syncContext: nrtSyncContext}
	return nrtHandler
}
