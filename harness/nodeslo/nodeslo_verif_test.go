//go:build verif

package nodeslo

// Engine `nodeslo` (C20): the real slo-controller NodeSLO pipeline -- SLOCfgHandlerForConfigMapEvent (Create/Update/Delete,
// syncConfig with keep-old-on-error), the section merge functions of resource_strategy.go (through util.MergeCfg),
// getNodeSLOSpec and NodeSLOReconciler.Reconcile -- driven by a simulated ConfigMap / Node / NodeSLO informer transport,
// a simulated workqueue and an in-memory API store behind controller-runtime's interceptor.Funcs (injected faults).
// The controller is single-threaded (one worker): the driver picks the next delivery / reconcile with r.Choose, there
// are no actors and no lock instrumentation.
//
// The oracle is a reference model written from the statement only: a GENERIC JSON OVERLAY over the serialised strategies.
// It never looks at a Go struct: it parses the ConfigMap section text with encoding/json into map[string]any, picks the
// first node entry whose selector matches, and overlays  default <- cluster <- entry  key by key (objects recurse, scalars
// and arrays replace, null sets nothing). See /verif/DESIGN.md section 4 C20.

import (
	"bytes"
	"context"
	"encoding/json"
	"errors"
	"fmt"
	"io"
	"reflect"
	"sort"
	"strings"
	"sync"
	"testing"
	"time"

	"github.com/go-logr/logr"
	corev1 "k8s.io/api/core/v1"
	apierrors "k8s.io/apimachinery/pkg/api/errors"
	"k8s.io/apimachinery/pkg/api/resource"
	metav1 "k8s.io/apimachinery/pkg/apis/meta/v1"
	"k8s.io/apimachinery/pkg/runtime"
	"k8s.io/apimachinery/pkg/runtime/schema"
	"k8s.io/apimachinery/pkg/types"
	"k8s.io/apimachinery/pkg/util/intstr"
	"k8s.io/client-go/tools/record"
	"k8s.io/klog/v2"
	"k8s.io/utils/ptr"
	"sigs.k8s.io/controller-runtime/pkg/client"
	"sigs.k8s.io/controller-runtime/pkg/client/interceptor"
	"sigs.k8s.io/controller-runtime/pkg/event"
	"sigs.k8s.io/controller-runtime/pkg/reconcile"

	"github.com/koordinator-sh/koordinator/apis/configuration"
	slov1alpha1 "github.com/koordinator-sh/koordinator/apis/slo/v1alpha1"
	"github.com/koordinator-sh/koordinator/pkg/slo-controller/nodemetric"
	"github.com/koordinator-sh/koordinator/pkg/util/sloconfig"
	sim "github.com/koordinator-sh/koordinator/pkg/verifsim"
)

func TestVerifSim(t *testing.T) {
	// the code under test logs every parse failure: keep the workers quiet
	klog.SetLogger(logr.Discard())
	sim.Main(t, &nsEngine{})
}

type nsEngine struct{}

func (nsEngine) Name() string { return "nodeslo" }

// ---------------------------------------------------------------- plan types

type nsCfg struct {
	// Info: informational configuration. The generator also writes explicit zeros ("" / [] / {} / "0") into non-pointer
	// omitempty fields and nulls into map values, which a merge through typed structs cannot tell from "unset".
	// Mismatches in such a run are only counted (probe info-mismatch:*), never reported.
	Info bool `json:"info"`
	// Lag: informer deliveries and reconciles lag behind the API writes (otherwise everything is drained after each op).
	Lag bool `json:"lag"`
	// Shapes: input shapes hitting recorded defects (known_findings.jsonl) that the generator may produce in this run.
	Shapes []string `json:"shapes,omitempty"`
}

func (c *nsCfg) shape(s string) bool {
	for _, x := range c.Shapes {
		if x == s {
			return true
		}
	}
	return false
}

type nsOp struct {
	K      string            `json:"k"` // cm_set | cm_del | node_add | node_del | node_label | node_touch | tamper | restart | settle
	Data   map[string]string `json:"data,omitempty"`
	Bad    []string          `json:"bad,omitempty"`  // cm_set: section keys whose text is valid JSON but of the wrong type for the section (cannot be parsed)
	Desc   string            `json:"desc,omitempty"` // human readable summary of a cm_set
	N      string            `json:"n,omitempty"`
	Labels map[string]string `json:"labels,omitempty"`
	How    string            `json:"how,omitempty"` // tamper: delete | edit
}

type nsSection struct {
	key, name string
	typ       reflect.Type
}

var nsSections = []nsSection{
	{configuration.ResourceThresholdConfigKey, "threshold", reflect.TypeOf(slov1alpha1.ResourceThresholdStrategy{})},
	{configuration.ResourceQOSConfigKey, "qos", reflect.TypeOf(slov1alpha1.ResourceQOSStrategy{})},
	{configuration.CPUBurstConfigKey, "cpuburst", reflect.TypeOf(slov1alpha1.CPUBurstStrategy{})},
	{configuration.SystemConfigKey, "system", reflect.TypeOf(slov1alpha1.SystemStrategy{})},
	{configuration.HostApplicationConfigKey, "hostapp", reflect.TypeOf(slov1alpha1.HostApplicationSpec{})},
}

const nsHostApp = 4

// shapes of input that hit recorded defects (see /verif/known_findings.jsonl); the generator produces them only in the runs
// that enable them and the executor tags exactly the histories in which the controller observed such an input.
const (
	nsShapeBandwidth = "system-entry-omits-bandwidth"
	nsShapeArrays    = "array-set-at-two-layers"
	nsShapeNoApps    = "hostapp-entry-without-applications"
	nsShapeCMDelete  = "configmap-deleted"
	nsTagFanout      = "fanout-list-failed"
)

// ---------------------------------------------------------------- workload schema (generator only; the oracle never sees it)

const (
	nkInt = iota
	nkBool
	nkStr
	nkObj
	nkMap
	nkArr
	nkQty
	nkIntStr
	nkSelMap // matchLabels (map[string]string)
)

type nsField struct {
	name string
	kind int
	ptr  bool
	sub  []nsField
}

var (
	nsQtyType    = reflect.TypeOf(resource.Quantity{})
	nsIntStrType = reflect.TypeOf(intstr.IntOrString{})
	nsSchemaOnce sync.Once
	nsSchemas    [][]nsField
)

// nsSchemaOf derives the field names / kinds of a strategy type from its json tags, so that the workload follows the API types.
func nsSchemaOf(t reflect.Type) []nsField {
	var out []nsField
	for i := 0; i < t.NumField(); i++ {
		f := t.Field(i)
		name := strings.Split(f.Tag.Get("json"), ",")[0]
		if name == "-" {
			continue
		}
		ft := f.Type
		isPtr := false
		if ft.Kind() == reflect.Ptr {
			isPtr = true
			ft = ft.Elem()
		}
		if name == "" && f.Anonymous && ft.Kind() == reflect.Struct {
			out = append(out, nsSchemaOf(ft)...)
			continue
		}
		if name == "" {
			continue
		}
		nf := nsField{name: name, ptr: isPtr}
		switch {
		case ft == nsQtyType:
			nf.kind = nkQty
		case ft == nsIntStrType:
			nf.kind = nkIntStr
		case ft.Kind() == reflect.Struct:
			nf.kind = nkObj
			nf.sub = nsSchemaOf(ft)
		case ft.Kind() == reflect.Bool:
			nf.kind = nkBool
		case ft.Kind() == reflect.String:
			nf.kind = nkStr
		case ft.Kind() >= reflect.Int && ft.Kind() <= reflect.Int64:
			nf.kind = nkInt
		case ft.Kind() == reflect.Map:
			nf.kind = nkMap
		case ft.Kind() == reflect.Slice:
			nf.kind = nkArr
			et := ft.Elem()
			if et.Kind() == reflect.Ptr {
				et = et.Elem()
			}
			if et.Kind() == reflect.Struct {
				nf.sub = nsSchemaOf(et)
			}
		default:
			continue
		}
		out = append(out, nf)
	}
	return out
}

func nsSchema(i int) []nsField {
	nsSchemaOnce.Do(func() {
		for _, s := range nsSections {
			nsSchemas = append(nsSchemas, nsSchemaOf(s.typ))
		}
	})
	return nsSchemas[i]
}

var nsEnums = map[string][]string{
	"cpuSuppressPolicy": {"cpuset", "cfsQuota"},
	"cpuEvictPolicy":    {"evictByRealLimit", "evictByAllocatable"},
	"policy":            {"none", "cpuBurstOnly", "cfsQuotaBurstOnly", "auto"},
	"cpuPolicy":         {"groupIdentity", "coreSched"},
	"netQOSPolicy":      {"tc", "terway-qos"},
	"type":              {"device", "volumegroup", "podvolume"},
	"priority":          {"koord-prod", "koord-mid", "koord-batch"},
	"qos":               {"LS", "BE", "LSR", "SYSTEM"},
	"base":              {"CgroupRoot", "Kubepods", "KubepodsBurstable"},
}

var nsInts = []int{0, 1, 2, 5, 10, 20, 30, 50, 60, 65, 70, 80, 95, 100, -1, 200, 1000}

type nsSite struct {
	set  func(v any)
	kind int
}

type nsGen struct {
	g     *sim.Rng
	info  bool
	pf    float64 // probability that a field is written
	sites []nsSite
	// shape control
	noArrays bool // do not write array-valued fields below this point
}

func (x *nsGen) obj(fs []nsField, inArr bool, depth int) map[string]any {
	m := map[string]any{}
	pf := x.pf
	if depth > 0 && pf < 0.45 {
		pf = 0.45
	}
	for _, f := range fs {
		if !x.g.Bool(pf) {
			continue
		}
		if f.kind == nkArr && x.noArrays {
			continue
		}
		f := f
		if !inArr && x.g.Bool(0.02) {
			m[f.name] = nil // explicit null: sets nothing
			continue
		}
		m[f.name] = x.val(f, inArr, depth)
		x.sites = append(x.sites, nsSite{func(v any) { m[f.name] = v }, f.kind})
	}
	return m
}

func (x *nsGen) val(f nsField, inArr bool, depth int) any {
	g := x.g
	zeroOK := f.ptr || x.info // an explicit zero can be told from "unset" only behind a pointer
	switch f.kind {
	case nkInt:
		v := nsInts[g.Intn(len(nsInts))]
		if v == 0 && !zeroOK {
			v = 1
		}
		return v
	case nkBool:
		b := g.Bool(0.5)
		if !b && !zeroOK {
			b = true
		}
		return b
	case nkStr:
		if x.info && !f.ptr && g.Bool(0.25) {
			return ""
		}
		if e := nsEnums[f.name]; e != nil {
			return e[g.Intn(len(e))]
		}
		return g.Pick("s1", "s2", "s3", "blk-a", "blk-b")
	case nkQty:
		if x.info && g.Bool(0.25) {
			return "0"
		}
		return g.Pick("50M", "100M", "1G", "10G")
	case nkIntStr:
		if g.Bool(0.5) {
			return g.PickInt(0, 10, 50, 100)
		}
		return g.Pick("10M", "50M", "1G")
	case nkMap:
		m := map[string]any{}
		if x.info && g.Bool(0.2) {
			return m
		}
		for _, k := range []string{"fa", "fb", "fc"} {
			if g.Bool(0.5) {
				if x.info && g.Bool(0.1) {
					m[k] = nil
				} else {
					m[k] = g.Bool(0.5)
				}
			}
		}
		if len(m) == 0 {
			m["fa"] = g.Bool(0.5)
		}
		return m
	case nkArr:
		n := 1 + g.Intn(2)
		if x.info && g.Bool(0.25) {
			n = 0
		}
		arr := make([]any, 0, n)
		save := x.pf
		if x.pf < 0.5 {
			x.pf = 0.5
		}
		for i := 0; i < n; i++ {
			e := x.obj(f.sub, true, depth+1)
			if _, ok := e["name"]; !ok && len(f.sub) > 0 && f.sub[0].name == "name" {
				e["name"] = g.Pick("blk-a", "blk-b", "app-a", "app-b")
			}
			arr = append(arr, e)
		}
		x.pf = save
		return arr
	case nkObj:
		return x.obj(f.sub, inArr, depth+1)
	}
	return nil
}

// nsWrong returns a JSON value of the wrong type for a field of the given kind: json.Unmarshal of the section fails.
func nsWrong(g *sim.Rng, kind int) any {
	switch kind {
	case nkInt:
		return []any{"str", 1.5, true, map[string]any{}, []any{}}[g.Intn(5)]
	case nkBool:
		return []any{1, "true", map[string]any{}}[g.Intn(3)]
	case nkStr:
		return []any{5, true, []any{}}[g.Intn(3)]
	case nkObj:
		return []any{"x", 5, []any{}, true}[g.Intn(4)]
	case nkMap:
		return []any{"x", []any{}, map[string]any{"fa": "yes"}}[g.Intn(3)]
	case nkSelMap:
		return []any{"x", []any{}, map[string]any{"pool": 5}}[g.Intn(3)]
	case nkArr:
		return []any{map[string]any{}, "x", 5, []any{5}}[g.Intn(4)]
	case nkQty:
		return []any{true, map[string]any{}, []any{}, "abc"}[g.Intn(4)]
	case nkIntStr:
		return []any{true, map[string]any{}, []any{}}[g.Intn(3)]
	}
	return "x"
}

var nsLabelKeys = []string{"pool", "zone", "tier"}
var nsLabelVals = []string{"a", "b", "c"}

func (x *nsGen) selector() (any, bool) {
	g := x.g
	v := g.Intn(100)
	switch {
	case v < 8:
		return nil, false // no selector: matches nothing
	case v < 12:
		return nil, true // "nodeSelector": null
	case v < 22:
		return map[string]any{}, true // matches everything
	}
	sel := map[string]any{}
	if v < 70 {
		ml := map[string]any{}
		n := 1
		if g.Bool(0.25) {
			n = 2
		}
		for _, i := range g.Perm(len(nsLabelKeys))[:n] {
			ml[nsLabelKeys[i]] = nsLabelVals[g.Intn(len(nsLabelVals))]
		}
		sel["matchLabels"] = ml
		x.sites = append(x.sites, nsSite{func(v any) { sel["matchLabels"] = v }, nkSelMap})
	}
	if v >= 55 {
		var exprs []any
		n := 1
		if g.Bool(0.2) {
			n = 2
		}
		for i := 0; i < n; i++ {
			e := map[string]any{"key": nsLabelKeys[g.Intn(len(nsLabelKeys))]}
			switch g.Intn(4) {
			case 0:
				e["operator"] = "In"
				e["values"] = nsPickVals(g)
			case 1:
				e["operator"] = "NotIn"
				e["values"] = nsPickVals(g)
			case 2:
				e["operator"] = "Exists"
			case 3:
				e["operator"] = "DoesNotExist"
			}
			exprs = append(exprs, e)
		}
		sel["matchExpressions"] = exprs
	}
	return sel, true
}

func nsPickVals(g *sim.Rng) []any {
	var out []any
	for _, v := range nsLabelVals {
		if g.Bool(0.5) {
			out = append(out, v)
		}
	}
	if len(out) == 0 {
		out = append(out, nsLabelVals[g.Intn(len(nsLabelVals))])
	}
	return out
}

// section generates the text of one ConfigMap section. state: empty | null | partial | full | malformed | wrongtype.
func (x *nsGen) section(si int, state string, maxEntries int, cfg *nsCfg) (text string, bad bool, desc string) {
	g := x.g
	switch state {
	case "empty":
		return "{}", false, "empty"
	case "null":
		return "null", false, "null"
	}
	x.sites = nil
	x.pf = []float64{0.1, 0.25, 0.5}[g.Intn(3)]
	if state == "full" {
		x.pf = 1
	}
	schema := nsSchema(si)
	o := map[string]any{}
	nEntries := g.Intn(maxEntries + 1)
	var entries []any
	if si == nsHostApp {
		appsField := nsField{name: "applications", kind: nkArr, sub: schema}
		clusterApps := g.Bool(0.7) || state == "full"
		if clusterApps {
			o["applications"] = x.val(appsField, false, 0)
			x.sites = append(x.sites, nsSite{func(v any) { o["applications"] = v }, nkArr})
		}
		for i := 0; i < nEntries; i++ {
			e := map[string]any{"name": fmt.Sprintf("e%d", i)}
			if sel, ok := x.selector(); ok {
				e["nodeSelector"] = sel
				x.sites = append(x.sites, nsSite{func(v any) { e["nodeSelector"] = v }, nkObj})
			}
			if g.Bool(0.8) || !cfg.shape(nsShapeNoApps) {
				e["applications"] = x.val(appsField, false, 0)
				x.sites = append(x.sites, nsSite{func(v any) { e["applications"] = v }, nkArr})
			}
			entries = append(entries, e)
		}
		if len(entries) > 0 {
			o["nodeConfigs"] = entries
			x.sites = append(x.sites, nsSite{func(v any) { o["nodeConfigs"] = v }, nkArr})
		}
	} else {
		// arrays (blkio blocks) are written at one layer only unless the run enables the recorded array-merge shape
		arraysAtCluster := g.Bool(0.5)
		var cluster map[string]any
		if g.Bool(0.8) || state == "full" {
			x.noArrays = !cfg.shape(nsShapeArrays) && !arraysAtCluster
			cluster = x.obj(schema, false, 0)
			o["clusterStrategy"] = cluster
			x.sites = append(x.sites, nsSite{func(v any) { o["clusterStrategy"] = v }, nkObj})
		}
		for i := 0; i < nEntries; i++ {
			save := x.pf
			if state == "full" && g.Bool(0.6) {
				x.pf = []float64{0.1, 0.25, 0.5}[g.Intn(3)]
			}
			x.noArrays = !cfg.shape(nsShapeArrays) && arraysAtCluster
			e := x.obj(schema, false, 0)
			x.pf = save
			// recorded defect: an entry with fields that omits the (non-pointer) bandwidth resets the cluster's value
			if bw, ok := cluster["totalNetworkBandwidth"]; ok && bw != nil && len(e) > 0 && !cfg.shape(nsShapeBandwidth) {
				if v, ok := e["totalNetworkBandwidth"]; !ok || v == nil {
					e["totalNetworkBandwidth"] = g.Pick("50M", "100M", "1G", "10G")
				}
			}
			e["name"] = fmt.Sprintf("e%d", i)
			if sel, ok := x.selector(); ok {
				e["nodeSelector"] = sel
				x.sites = append(x.sites, nsSite{func(v any) { e["nodeSelector"] = v }, nkObj})
			}
			entries = append(entries, e)
		}
		x.noArrays = false
		if len(entries) > 0 {
			o["nodeStrategies"] = entries
			x.sites = append(x.sites, nsSite{func(v any) { o["nodeStrategies"] = v }, nkArr})
			i := g.Intn(len(entries))
			x.sites = append(x.sites, nsSite{func(v any) { entries[i] = v }, nkObj})
		}
	}
	desc = fmt.Sprintf("%s(%d entries)", state, len(entries))
	if state == "wrongtype" {
		bad = true
		if len(x.sites) == 0 || g.Bool(0.1) {
			// the whole section is not an object
			b, _ := json.Marshal([]any{[]any{}, "str", 7, true}[g.Intn(4)])
			return string(b), true, desc
		}
		st := x.sites[g.Intn(len(x.sites))]
		st.set(nsWrong(g, st.kind))
	}
	b, err := json.Marshal(o)
	if err != nil {
		panic(err)
	}
	text = string(b)
	if state == "malformed" {
		switch g.Intn(5) {
		case 0:
			text = ""
		case 1:
			text = "not json {"
		case 2:
			text = text + "}"
		default:
			if len(text) > 2 {
				text = text[:1+g.Intn(len(text)-1)]
			} else {
				text = "{"
			}
		}
	}
	return text, bad, desc
}

func nsGenLabels(g *sim.Rng) map[string]string {
	l := map[string]string{}
	for _, k := range nsLabelKeys {
		if g.Bool(0.6) {
			l[k] = nsLabelVals[g.Intn(len(nsLabelVals))]
		}
	}
	return l
}

func (nsEngine) Generate(p *sim.Plan, g *sim.Rng) {
	cfg := nsCfg{Info: g.Bool(0.1), Lag: g.Bool(0.5)}
	for _, sh := range []string{nsShapeBandwidth, nsShapeArrays, nsShapeNoApps, nsShapeCMDelete} {
		if g.Bool(0.12) {
			cfg.Shapes = append(cfg.Shapes, sh)
		}
	}
	if g.Bool(0.75) {
		p.FaultRate = []float64{0.03, 0.1, 0.25}[g.Intn(3)]
		for _, k := range []string{"err-before", "err-after", "conflict", "list-fail", "get-fail"} {
			if g.Bool(0.4) {
				p.Faults = append(p.Faults, k)
			}
		}
		if len(p.Faults) == 0 {
			p.Faults = []string{g.Pick("err-before", "err-after", "conflict")}
		}
	}
	nOps, nNodes, maxEntries := g.Range(6, 26), 4, 4
	if p.Tier == "thorough" {
		nOps, nNodes = g.Range(6, 50), 6
	}
	x := &nsGen{g: g, info: cfg.Info}
	nodeHave := map[string]bool{}
	cmHave := false
	last := map[string]string{}
	lastBad := map[string]bool{}
	var ops []nsOp
	node := func() string { return fmt.Sprintf("n%d", g.Intn(nNodes)) }
	for len(ops) < nOps {
		v := g.Intn(100)
		if len(ops) < 3 && len(nodeHave) == 0 {
			v = 45 // start with a node
		}
		switch {
		case v < 42:
			op := nsOp{K: "cm_set", Data: map[string]string{}}
			var descs []string
			for si, sec := range nsSections {
				if t, ok := last[sec.key]; ok && g.Bool(0.3) {
					op.Data[sec.key] = t
					if lastBad[sec.key] {
						op.Bad = append(op.Bad, sec.key)
					}
					descs = append(descs, sec.name+"=same")
					continue
				}
				sv := g.Intn(100)
				state := ""
				switch {
				case sv < 18:
					descs = append(descs, sec.name+"=absent")
					delete(last, sec.key)
					continue
				case sv < 24:
					state = "empty"
				case sv < 26:
					state = "null"
				case sv < 70:
					state = "partial"
				case sv < 78:
					state = "full"
				case sv < 89:
					state = "malformed"
				default:
					state = "wrongtype"
				}
				text, bad, d := x.section(si, state, maxEntries, &cfg)
				op.Data[sec.key] = text
				if bad {
					op.Bad = append(op.Bad, sec.key)
				}
				last[sec.key], lastBad[sec.key] = text, bad
				descs = append(descs, sec.name+"="+d)
			}
			op.Desc = strings.Join(descs, " ")
			cmHave = true
			ops = append(ops, op)
		case v < 56:
			n := node()
			if nodeHave[n] {
				ops = append(ops, nsOp{K: "node_label", N: n, Labels: nsGenLabels(g)})
			} else {
				nodeHave[n] = true
				ops = append(ops, nsOp{K: "node_add", N: n, Labels: nsGenLabels(g)})
			}
		case v < 66:
			n := node()
			if !nodeHave[n] {
				continue
			}
			ops = append(ops, nsOp{K: "node_label", N: n, Labels: nsGenLabels(g)})
		case v < 71:
			n := node()
			if !nodeHave[n] {
				continue
			}
			delete(nodeHave, n)
			ops = append(ops, nsOp{K: "node_del", N: n})
		case v < 75:
			n := node()
			if !nodeHave[n] {
				continue
			}
			ops = append(ops, nsOp{K: "node_touch", N: n})
		case v < 79:
			if !cmHave || !cfg.shape(nsShapeCMDelete) {
				continue
			}
			cmHave = false
			ops = append(ops, nsOp{K: "cm_del"})
		case v < 86:
			n := node()
			if !nodeHave[n] {
				continue
			}
			ops = append(ops, nsOp{K: "tamper", N: n, How: g.Pick("delete", "edit", "edit")})
		case v < 92:
			ops = append(ops, nsOp{K: "restart"})
		default:
			ops = append(ops, nsOp{K: "settle"})
		}
	}
	p.SetCfg(cfg)
	p.SetOps(ops)
}

// ---------------------------------------------------------------- simulated workqueue

// nsQueue implements workqueue.TypedRateLimitingInterface[reconcile.Request]: a de-duplicating ordered set. The single
// controller worker is the driver itself, so an item is never "processing" while something is added.
type nsQueue struct {
	mu       sync.Mutex // a real workqueue is goroutine-safe (a repaired fan-out may add from a timer goroutine)
	items    []reconcile.Request
	in       map[reconcile.Request]bool
	requeues map[reconcile.Request]int
	dups     int
}

func newNsQueue() *nsQueue {
	return &nsQueue{in: map[reconcile.Request]bool{}, requeues: map[reconcile.Request]int{}}
}

func (q *nsQueue) Add(it reconcile.Request) {
	q.mu.Lock()
	defer q.mu.Unlock()
	if q.in[it] {
		q.dups++
		return
	}
	q.in[it] = true
	q.items = append(q.items, it)
}
func (q *nsQueue) Len() int {
	q.mu.Lock()
	defer q.mu.Unlock()
	return len(q.items)
}
func (q *nsQueue) take(i int) reconcile.Request {
	q.mu.Lock()
	defer q.mu.Unlock()
	it := q.items[i]
	q.items = append(q.items[:i:i], q.items[i+1:]...)
	delete(q.in, it)
	return it
}
func (q *nsQueue) Get() (reconcile.Request, bool) {
	if q.Len() == 0 {
		return reconcile.Request{}, true
	}
	return q.take(0), false
}
func (q *nsQueue) Done(reconcile.Request)                         {}
func (q *nsQueue) ShutDown()                                      {}
func (q *nsQueue) ShutDownWithDrain()                             {}
func (q *nsQueue) ShuttingDown() bool                             { return false }
func (q *nsQueue) AddAfter(it reconcile.Request, _ time.Duration) { q.Add(it) }
func (q *nsQueue) AddRateLimited(it reconcile.Request) {
	q.mu.Lock()
	q.requeues[it]++
	q.mu.Unlock()
	q.Add(it)
}
func (q *nsQueue) Forget(it reconcile.Request) {
	q.mu.Lock()
	delete(q.requeues, it)
	q.mu.Unlock()
}
func (q *nsQueue) NumRequeues(it reconcile.Request) int {
	q.mu.Lock()
	defer q.mu.Unlock()
	return q.requeues[it]
}

// ---------------------------------------------------------------- the API store

// nsStore is the simulated API server / informer cache: objects are kept serialised (every read and write goes through
// JSON like a real round trip), writes bump a resourceVersion, stale resourceVersions conflict. It implements the part of
// client.WithWatch that the code under test uses; anything else would panic on the embedded nil interface.
type nsStore struct {
	client.WithWatch
	objs map[string][]byte
	rvs  map[string]string
	rv   int
}

func newNsStore() *nsStore { return &nsStore{objs: map[string][]byte{}, rvs: map[string]string{}} }

func nsKind(obj runtime.Object) (string, schema.GroupResource) {
	switch obj.(type) {
	case *corev1.Node, *corev1.NodeList:
		return "Node", schema.GroupResource{Resource: "nodes"}
	case *corev1.ConfigMap:
		return "ConfigMap", schema.GroupResource{Resource: "configmaps"}
	case *slov1alpha1.NodeSLO, *slov1alpha1.NodeSLOList:
		return "NodeSLO", nsSLOGR
	}
	panic(fmt.Sprintf("nodeslo harness: store does not serve %T", obj))
}

func (st *nsStore) Scheme() *runtime.Scheme { return nsScheme() }

func (st *nsStore) Get(_ context.Context, key client.ObjectKey, obj client.Object, _ ...client.GetOption) error {
	kind, gr := nsKind(obj)
	b, ok := st.objs[kind+"/"+key.Namespace+"/"+key.Name]
	if !ok {
		return apierrors.NewNotFound(gr, key.Name)
	}
	reflect.ValueOf(obj).Elem().SetZero()
	return json.Unmarshal(b, obj)
}

func (st *nsStore) put(k string, obj client.Object) error {
	st.rv++
	obj.SetResourceVersion(fmt.Sprint(st.rv))
	b, err := json.Marshal(obj)
	if err != nil {
		return err
	}
	st.objs[k], st.rvs[k] = b, obj.GetResourceVersion()
	return nil
}

func (st *nsStore) Create(_ context.Context, obj client.Object, _ ...client.CreateOption) error {
	kind, gr := nsKind(obj)
	k := kind + "/" + obj.GetNamespace() + "/" + obj.GetName()
	if _, ok := st.objs[k]; ok {
		return apierrors.NewAlreadyExists(gr, obj.GetName())
	}
	if obj.GetResourceVersion() != "" {
		return apierrors.NewBadRequest("resourceVersion can not be set for Create requests")
	}
	obj.SetUID(types.UID(fmt.Sprintf("uid-%d", st.rv+1)))
	return st.put(k, obj)
}

func (st *nsStore) Update(_ context.Context, obj client.Object, _ ...client.UpdateOption) error {
	kind, gr := nsKind(obj)
	k := kind + "/" + obj.GetNamespace() + "/" + obj.GetName()
	if _, ok := st.objs[k]; !ok {
		return apierrors.NewNotFound(gr, obj.GetName())
	}
	if rv := obj.GetResourceVersion(); rv != "" && rv != st.rvs[k] {
		return apierrors.NewConflict(gr, obj.GetName(), errors.New("the object has been modified"))
	}
	return st.put(k, obj)
}

func (st *nsStore) Delete(_ context.Context, obj client.Object, _ ...client.DeleteOption) error {
	kind, gr := nsKind(obj)
	k := kind + "/" + obj.GetNamespace() + "/" + obj.GetName()
	if _, ok := st.objs[k]; !ok {
		return apierrors.NewNotFound(gr, obj.GetName())
	}
	delete(st.objs, k)
	delete(st.rvs, k)
	return nil
}

func (st *nsStore) List(_ context.Context, list client.ObjectList, _ ...client.ListOption) error {
	kind, _ := nsKind(list)
	var keys []string
	for k := range st.objs {
		if strings.HasPrefix(k, kind+"/") {
			keys = append(keys, k)
		}
	}
	sort.Strings(keys)
	switch l := list.(type) {
	case *corev1.NodeList:
		l.Items = make([]corev1.Node, len(keys))
		for i, k := range keys {
			if err := json.Unmarshal(st.objs[k], &l.Items[i]); err != nil {
				return err
			}
		}
	case *slov1alpha1.NodeSLOList:
		l.Items = make([]slov1alpha1.NodeSLO, len(keys))
		for i, k := range keys {
			if err := json.Unmarshal(st.objs[k], &l.Items[i]); err != nil {
				return err
			}
		}
	}
	return nil
}

// ---------------------------------------------------------------- execution

type nsEvent struct {
	kind      string // create | update | delete
	old, obj  client.Object
	specDelta bool // NodeSLO update: the spec changed (metadata.generation bump passes GenerationChangedPredicate)
}

type nsSim struct {
	r    *sim.Run
	cfg  nsCfg
	ctx  context.Context
	base client.WithWatch // the API store, also the informer cache the controller's client reads from
	cl   client.Client    // the controller's client: base behind the fault-injecting interceptor

	h     *SLOCfgHandlerForConfigMapEvent
	rec   *NodeSLOReconciler
	nodeH *nodemetric.EnqueueRequestForNode
	q     *nsQueue

	faultsOn bool

	// informer transport: one ordered stream per type, consumed by the controller's handlers
	cmEv, nodeEv, sloEv []nsEvent

	// harness-side picture of the store
	nodes map[string]*corev1.Node
	cm    *corev1.ConfigMap
	bad   map[string]bool // section key + NUL + text -> valid JSON of the wrong type

	// oracle memory (the reference model's state): per section the parsed JSON of the last parseable observation;
	// a missing key means "built-in defaults"
	eff      map[string]any
	effText  map[string]string // text in force (for messages)
	kept     map[string]bool   // the latest observation of the section could not be parsed: the previous settings stay in force
	observed bool              // the controller looked at the ConfigMap since its (re)start
	defaults map[string]any

	infoMismatches int

	// memoisation only (never carries state of the model): expected value per (section, label set) since the last
	// observation, and parsed form of a serialised delivered section
	expCache map[string]nsExp
	gotCache map[string]any
}

type nsExp struct {
	val   any
	layer string
}

var (
	nsSchemeOnce sync.Once
	nsSchemeVal  *runtime.Scheme
)

func nsScheme() *runtime.Scheme {
	nsSchemeOnce.Do(func() {
		s := runtime.NewScheme()
		_ = corev1.AddToScheme(s)
		_ = slov1alpha1.AddToScheme(s)
		nsSchemeVal = s
	})
	return nsSchemeVal
}

// nsGeneric serialises v and parses it back without any type: the only form the oracle ever looks at.
func nsGeneric(v any) any {
	b, err := json.Marshal(v)
	if err != nil {
		panic(fmt.Sprintf("nodeslo harness: marshal: %v", err))
	}
	out, ok := nsParse(string(b))
	if !ok {
		panic("nodeslo harness: own serialisation not parseable")
	}
	return out
}

func nsParse(text string) (any, bool) {
	d := json.NewDecoder(strings.NewReader(text))
	d.UseNumber()
	var v any
	if err := d.Decode(&v); err != nil {
		return nil, false
	}
	// trailing garbage?
	var extra any
	if err := d.Decode(&extra); err != io.EOF {
		return nil, false
	}
	return v, true
}

func (nsEngine) Execute(r *sim.Run) {
	s := &nsSim{r: r, ctx: context.Background(), nodes: map[string]*corev1.Node{}, bad: map[string]bool{}, faultsOn: true, gotCache: map[string]any{}}
	r.Plan.GetCfg(&s.cfg)
	var ops []nsOp
	r.Plan.GetOps(&ops)
	s.base = newNsStore()
	s.cl = interceptor.NewClient(s.base, s.funcs())
	// the built-in default layer: what the controller is constructed with (the property is about layering, not about
	// which numbers the defaults are)
	d := DefaultSLOCfg()
	s.defaults = map[string]any{
		nsSections[0].key: nsGeneric(d.ThresholdCfgMerged.ClusterStrategy),
		nsSections[1].key: nsGeneric(d.ResourceQOSCfgMerged.ClusterStrategy),
		nsSections[2].key: nsGeneric(d.CPUBurstCfgMerged.ClusterStrategy),
		nsSections[3].key: nsGeneric(d.SystemCfgMerged.ClusterStrategy),
	}
	s.startController()
	r.Sample("cfg %+v faults=%v rate=%v", s.cfg, r.Plan.Faults, r.Plan.FaultRate)
	for _, op := range ops {
		op := op
		s.apply(&op)
		if s.cfg.Lag && r.Flip(0.7) {
			// the controller lags behind the API: only some (possibly none) of the pending deliveries / reconciles happen now
			n := r.Choose(6)
			for i := 0; i < n && s.step(); i++ {
			}
		} else {
			s.drain(false)
		}
	}
	s.drain(true)
	if s.infoMismatches > 0 {
		r.Probe("info-run-with-mismatch")
	}
}

// startController builds fresh instances of the real handler and reconciler (process start): the in-memory queue and the
// cached configuration are gone, the informers list the store.
func (s *nsSim) startController() {
	s.q = newNsQueue()
	s.h = NewSLOCfgHandlerForConfigMapEvent(s.cl, DefaultSLOCfg(), &record.FakeRecorder{})
	s.rec = &NodeSLOReconciler{Client: s.cl, sloCfgCache: s.h, Scheme: nsScheme(), Recorder: &record.FakeRecorder{}}
	s.nodeH = &nodemetric.EnqueueRequestForNode{Client: s.cl}
	s.cmEv, s.nodeEv, s.sloEv = nil, nil, nil
	if s.cm != nil {
		s.cmEv = append(s.cmEv, nsEvent{kind: "create", obj: s.cm.DeepCopy()})
	}
	names := s.nodeNames()
	for len(names) > 0 { // initial list: arbitrary order within a type
		i := s.r.Choose(len(names))
		s.nodeEv = append(s.nodeEv, nsEvent{kind: "create", obj: s.nodes[names[i]].DeepCopy()})
		names = append(names[:i], names[i+1:]...)
	}
	slos := &slov1alpha1.NodeSLOList{}
	if err := s.base.List(s.ctx, slos); err != nil {
		s.r.HarnessFail("list nodeslo: %v", err)
	}
	sort.Slice(slos.Items, func(i, j int) bool { return slos.Items[i].Name < slos.Items[j].Name })
	for i := range slos.Items {
		s.sloEv = append(s.sloEv, nsEvent{kind: "create", obj: slos.Items[i].DeepCopy()})
	}
	// by definition a restart forgets what was "previously effective": the model starts from the defaults again
	s.eff, s.effText, s.kept = map[string]any{}, map[string]string{}, map[string]bool{}
	s.observed = false
	s.expCache = map[string]nsExp{}
}

func (s *nsSim) nodeNames() []string {
	names := make([]string, 0, len(s.nodes))
	for n := range s.nodes {
		names = append(names, n)
	}
	sort.Strings(names)
	return names
}

var nsSLOGR = schema.GroupResource{Group: "slo.koordinator.sh", Resource: "nodeslos"}

// funcs is the fault seam between the controller and the store. Reads of the ConfigMap are never faulted (they are
// informer-cache reads that only fail before the cache has synced).
func (s *nsSim) funcs() interceptor.Funcs {
	r := s.r
	return interceptor.Funcs{
		Get: func(ctx context.Context, c client.WithWatch, key client.ObjectKey, obj client.Object, opts ...client.GetOption) error {
			if _, isCM := obj.(*corev1.ConfigMap); !isCM && s.faultsOn {
				if f := r.Fault("get", "get-fail"); f != "" {
					return apierrors.NewInternalError(errors.New("simulated read failure"))
				}
			}
			return c.Get(ctx, key, obj, opts...)
		},
		List: func(ctx context.Context, c client.WithWatch, list client.ObjectList, opts ...client.ListOption) error {
			if _, ok := list.(*corev1.NodeList); ok && s.faultsOn {
				if f := r.Fault("list-nodes", "list-fail"); f != "" {
					// the only List of nodes is the fan-out after a configuration change (triggerAllNodeEnqueue)
					r.Tag(nsTagFanout)
					return apierrors.NewInternalError(errors.New("simulated list failure"))
				}
			}
			return c.List(ctx, list, opts...)
		},
		Create: func(ctx context.Context, c client.WithWatch, obj client.Object, opts ...client.CreateOption) error {
			f := ""
			if s.faultsOn {
				f = r.Fault("create", "err-before", "err-after")
			}
			if f == "err-before" {
				return apierrors.NewServiceUnavailable("simulated")
			}
			err := c.Create(ctx, obj, opts...)
			if err == nil {
				if slo, ok := obj.(*slov1alpha1.NodeSLO); ok {
					s.sloEv = append(s.sloEv, nsEvent{kind: "create", obj: slo.DeepCopy()})
				}
				if f == "err-after" {
					r.Probe("lost-ack-create")
					return apierrors.NewTimeoutError("simulated lost acknowledgement", 1)
				}
			}
			return err
		},
		Update: func(ctx context.Context, c client.WithWatch, obj client.Object, opts ...client.UpdateOption) error {
			f := ""
			if s.faultsOn {
				f = r.Fault("update", "err-before", "err-after", "conflict")
			}
			switch f {
			case "err-before":
				return apierrors.NewServiceUnavailable("simulated")
			case "conflict":
				return apierrors.NewConflict(nsSLOGR, obj.GetName(), errors.New("simulated stale resourceVersion"))
			}
			var old *slov1alpha1.NodeSLO
			if _, ok := obj.(*slov1alpha1.NodeSLO); ok {
				old = &slov1alpha1.NodeSLO{}
				if err := c.Get(ctx, client.ObjectKeyFromObject(obj), old); err != nil {
					old = nil
				}
			}
			err := c.Update(ctx, obj, opts...)
			if err == nil {
				if slo, ok := obj.(*slov1alpha1.NodeSLO); ok && old != nil {
					s.sloEv = append(s.sloEv, nsEvent{kind: "update", old: old, obj: slo.DeepCopy(), specDelta: !nsSameJSON(old.Spec, slo.Spec)})
				}
				if f == "err-after" {
					r.Probe("lost-ack-update")
					return apierrors.NewTimeoutError("simulated lost acknowledgement", 1)
				}
			}
			return err
		},
		Delete: func(ctx context.Context, c client.WithWatch, obj client.Object, opts ...client.DeleteOption) error {
			f := ""
			if s.faultsOn {
				f = r.Fault("delete", "err-before", "err-after")
			}
			if f == "err-before" {
				return apierrors.NewServiceUnavailable("simulated")
			}
			err := c.Delete(ctx, obj, opts...)
			if err == nil {
				if slo, ok := obj.(*slov1alpha1.NodeSLO); ok {
					s.sloEv = append(s.sloEv, nsEvent{kind: "delete", obj: slo.DeepCopy()})
				}
				if f == "err-after" {
					r.Probe("lost-ack-delete")
					return apierrors.NewTimeoutError("simulated lost acknowledgement", 1)
				}
			}
			return err
		},
	}
}

func nsSameJSON(a, b any) bool {
	x, _ := json.Marshal(a)
	y, _ := json.Marshal(b)
	return bytes.Equal(x, y)
}

// ---- user / API-side operations (never faulted: they are the environment)

func (s *nsSim) apply(op *nsOp) {
	r := s.r
	switch op.K {
	case "cm_set":
		for _, k := range op.Bad {
			s.bad[k+"\x00"+op.Data[k]] = true
		}
		data := map[string]string{}
		for k, v := range op.Data {
			data[k] = v
		}
		if s.cm == nil {
			cm := &corev1.ConfigMap{ObjectMeta: metav1.ObjectMeta{Namespace: sloconfig.ConfigNameSpace, Name: sloconfig.SLOCtrlConfigMap}, Data: data}
			if err := s.base.Create(s.ctx, cm); err != nil {
				r.HarnessFail("cm create: %v", err)
			}
			s.cm = cm
			s.cmEv = append(s.cmEv, nsEvent{kind: "create", obj: cm.DeepCopy()})
		} else {
			old := s.cm.DeepCopy()
			s.cm.Data = data
			if err := s.base.Update(s.ctx, s.cm); err != nil {
				r.HarnessFail("cm update: %v", err)
			}
			s.cmEv = append(s.cmEv, nsEvent{kind: "update", old: old, obj: s.cm.DeepCopy()})
		}
		r.Event("op cm_set %s", op.Desc)
		r.Sample("cm_set %s", op.Desc)
	case "cm_del":
		if s.cm == nil {
			r.OpSkipped()
			return
		}
		if err := s.base.Delete(s.ctx, s.cm); err != nil {
			r.HarnessFail("cm delete: %v", err)
		}
		s.cmEv = append(s.cmEv, nsEvent{kind: "delete", obj: s.cm.DeepCopy()})
		s.cm = nil
		r.Event("op cm_del")
		r.Sample("cm_del")
	case "node_add":
		if s.nodes[op.N] != nil {
			r.OpSkipped()
			return
		}
		n := &corev1.Node{ObjectMeta: metav1.ObjectMeta{Name: op.N, Labels: nsCopyLabels(op.Labels)}}
		if err := s.base.Create(s.ctx, n); err != nil {
			r.HarnessFail("node create: %v", err)
		}
		s.nodes[op.N] = n
		s.nodeEv = append(s.nodeEv, nsEvent{kind: "create", obj: n.DeepCopy()})
		r.Event("op node_add %s %v", op.N, nsLabelString(op.Labels))
		r.Sample("node_add %s %s", op.N, nsLabelString(op.Labels))
	case "node_label", "node_touch":
		n := s.nodes[op.N]
		if n == nil {
			r.OpSkipped()
			return
		}
		old := n.DeepCopy()
		if op.K == "node_label" {
			n.Labels = nsCopyLabels(op.Labels)
		} else {
			// an allocatable change: passes the node handler's filter and causes one more reconcile of the node
			cur := n.Status.Allocatable[corev1.ResourceCPU]
			cur.Add(resource.MustParse("1"))
			n.Status.Allocatable = corev1.ResourceList{corev1.ResourceCPU: cur}
		}
		if err := s.base.Update(s.ctx, n); err != nil {
			r.HarnessFail("node update: %v", err)
		}
		s.nodeEv = append(s.nodeEv, nsEvent{kind: "update", old: old, obj: n.DeepCopy()})
		r.Event("op %s %s %v", op.K, op.N, nsLabelString(op.Labels))
		r.Sample("%s %s %s", op.K, op.N, nsLabelString(op.Labels))
	case "node_del":
		n := s.nodes[op.N]
		if n == nil {
			r.OpSkipped()
			return
		}
		if err := s.base.Delete(s.ctx, n); err != nil {
			r.HarnessFail("node delete: %v", err)
		}
		delete(s.nodes, op.N)
		s.nodeEv = append(s.nodeEv, nsEvent{kind: "delete", obj: n.DeepCopy()})
		r.Event("op node_del %s", op.N)
		r.Sample("node_del %s", op.N)
	case "tamper":
		// somebody else deletes or edits the NodeSLO object: the controller must put it right again
		slo := &slov1alpha1.NodeSLO{}
		if err := s.base.Get(s.ctx, types.NamespacedName{Name: op.N}, slo); err != nil {
			r.OpSkipped()
			return
		}
		old := slo.DeepCopy()
		if op.How == "delete" {
			if err := s.base.Delete(s.ctx, slo); err != nil {
				r.HarnessFail("nodeslo delete: %v", err)
			}
			s.sloEv = append(s.sloEv, nsEvent{kind: "delete", obj: old})
		} else {
			slo.Spec.ResourceUsedThresholdWithBE = &slov1alpha1.ResourceThresholdStrategy{CPUSuppressThresholdPercent: ptr.To[int64](33)}
			slo.Spec.CPUBurstStrategy = nil
			slo.Spec.HostApplications = []slov1alpha1.HostApplicationSpec{{Name: "intruder"}}
			if err := s.base.Update(s.ctx, slo); err != nil {
				r.HarnessFail("nodeslo update: %v", err)
			}
			s.sloEv = append(s.sloEv, nsEvent{kind: "update", old: old, obj: slo.DeepCopy(), specDelta: !nsSameJSON(old.Spec, slo.Spec)})
		}
		r.Probe("tamper-" + op.How)
		r.Event("op tamper %s %s", op.N, op.How)
		r.Sample("tamper %s %s", op.N, op.How)
	case "restart":
		s.startController()
		s.checkAllNodes("restart")
		r.Probe("restart")
		r.Event("op restart")
		r.Sample("restart")
	case "settle":
		s.drain(false)
		r.Event("op settle")
	default:
		r.HarnessFail("unknown op %q", op.K)
	}
	r.OpDone()
}

func nsCopyLabels(l map[string]string) map[string]string {
	out := map[string]string{}
	for k, v := range l {
		out[k] = v
	}
	return out
}

func nsLabelString(l map[string]string) string {
	ks := make([]string, 0, len(l))
	for k := range l {
		ks = append(ks, k)
	}
	sort.Strings(ks)
	var sb strings.Builder
	sb.WriteString("{")
	for i, k := range ks {
		if i > 0 {
			sb.WriteString(",")
		}
		sb.WriteString(k + "=" + l[k])
	}
	sb.WriteString("}")
	return sb.String()
}

// ---- controller-side steps: informer deliveries and reconciles, one whole step at a time

// step performs one enabled internal step chosen from the deliver tape; false when nothing is pending.
func (s *nsSim) step() bool {
	var en []int
	if len(s.cmEv) > 0 {
		en = append(en, 0)
	}
	if s.q.Len() > 0 {
		en = append(en, 1)
	}
	if len(s.nodeEv) > 0 {
		en = append(en, 2)
	}
	if len(s.sloEv) > 0 {
		en = append(en, 3)
	}
	if len(en) == 0 {
		return false
	}
	switch en[s.r.Choose(len(en))] {
	case 0:
		s.deliverCM()
	case 1:
		s.reconcileOne()
	case 2:
		s.deliverNode()
	case 3:
		s.deliverSLO()
	}
	return true
}

func (s *nsSim) deliverCM() {
	r := s.r
	ev := s.cmEv[0]
	s.cmEv = s.cmEv[1:]
	// coalescing (DESIGN 2.5 item 3): consecutive updates merge; delete+create of the same name merge into an update
	for len(s.cmEv) > 0 && r.Flip(0.3) {
		nx := s.cmEv[0]
		switch {
		case ev.kind == "update" && nx.kind == "update":
			ev = nsEvent{kind: "update", old: ev.old, obj: nx.obj}
		case ev.kind == "delete" && nx.kind == "create":
			ev = nsEvent{kind: "update", old: ev.obj, obj: nx.obj}
		case ev.kind == "create" && nx.kind == "update":
			ev = nsEvent{kind: "create", obj: nx.obj}
		default:
			goto deliver
		}
		s.cmEv = s.cmEv[1:]
		r.Probe("cm-coalesced")
	}
deliver:
	switch ev.kind {
	case "create":
		cm := ev.obj.(*corev1.ConfigMap)
		s.h.Create(s.ctx, event.TypedCreateEvent[client.Object]{Object: cm}, s.q)
		s.observe(cm.Data, true)
	case "update":
		oldCM, cm := ev.old.(*corev1.ConfigMap), ev.obj.(*corev1.ConfigMap)
		s.h.Update(s.ctx, event.TypedUpdateEvent[client.Object]{ObjectOld: oldCM, ObjectNew: cm}, s.q)
		s.observe(cm.Data, true)
	case "delete":
		cm := ev.obj.(*corev1.ConfigMap)
		s.h.Delete(s.ctx, event.TypedDeleteEvent[client.Object]{Object: cm}, s.q)
		// no ConfigMap: no node entry, no cluster-wide value => every field is the built-in default
		r.Tag(nsShapeCMDelete)
		s.observe(nil, false)
	}
	r.Event("deliver cm %s queue=%d", ev.kind, s.q.Len())
	s.checkAllNodes("cm-" + ev.kind)
	if ev.kind != "delete" && r.Flip(0.08) {
		// resync duplicate: Update(obj, obj)
		s.h.Update(s.ctx, event.TypedUpdateEvent[client.Object]{ObjectOld: ev.obj, ObjectNew: ev.obj}, s.q)
		r.Probe("cm-resync-duplicate")
		r.Event("deliver cm resync queue=%d", s.q.Len())
		s.checkAllNodes("cm-resync")
	}
}

func (s *nsSim) deliverNode() {
	r := s.r
	ev := s.nodeEv[0]
	s.nodeEv = s.nodeEv[1:]
	if ev.kind == "update" && len(s.nodeEv) > 0 && s.nodeEv[0].kind == "update" && s.nodeEv[0].obj.GetName() == ev.obj.GetName() && r.Flip(0.3) {
		ev = nsEvent{kind: "update", old: ev.old, obj: s.nodeEv[0].obj}
		s.nodeEv = s.nodeEv[1:]
		r.Probe("node-coalesced")
	}
	switch ev.kind {
	case "create":
		s.nodeH.Create(s.ctx, event.TypedCreateEvent[client.Object]{Object: ev.obj}, s.q)
	case "update":
		s.nodeH.Update(s.ctx, event.TypedUpdateEvent[client.Object]{ObjectOld: ev.old, ObjectNew: ev.obj}, s.q)
	case "delete":
		s.nodeH.Delete(s.ctx, event.TypedDeleteEvent[client.Object]{Object: ev.obj}, s.q)
	}
	r.Event("deliver node %s %s queue=%d", ev.kind, ev.obj.GetName(), s.q.Len())
	// the spec computed for the node as the controller's cache now shows it (labels may have changed)
	if n := s.nodes[ev.obj.GetName()]; n != nil {
		s.checkNode("node-"+ev.kind, n)
	}
}

// deliverSLO models the controller's own NodeSLO watch (EnqueueRequestForObject behind GenerationChangedPredicate).
func (s *nsSim) deliverSLO() {
	ev := s.sloEv[0]
	s.sloEv = s.sloEv[1:]
	if ev.kind != "update" || ev.specDelta {
		s.q.Add(reconcile.Request{NamespacedName: types.NamespacedName{Name: ev.obj.GetName()}})
	}
	s.r.Event("deliver nodeslo %s %s queue=%d", ev.kind, ev.obj.GetName(), s.q.Len())
}

func (s *nsSim) reconcileOne() {
	r := s.r
	i := r.Choose(s.q.Len()) // 0 = FIFO; anything else models rate-limited / prioritised reordering
	if i > 0 {
		r.Probe("reconcile-reordered")
	}
	req := s.q.take(i)
	if !s.observed {
		// first use of the configuration after a (re)start, before any ConfigMap event was handled: the controller reads
		// the ConfigMap from its cache itself (IsCfgAvailable)
		r.Probe("config-read-by-reconcile")
		if s.cm != nil {
			s.observe(s.cm.Data, true)
		} else {
			s.observe(nil, false)
		}
	}
	res, err := s.rec.Reconcile(s.ctx, req)
	if err != nil || res.Requeue || res.RequeueAfter > 0 {
		s.q.AddRateLimited(req)
		r.Probe("reconcile-requeued")
		r.Event("reconcile %s -> requeue", req.Name)
		return
	}
	s.q.Forget(req)
	r.Event("reconcile %s -> ok", req.Name)
	// operation-level post-condition: a reconcile that reports success leaves the node's NodeSLO as the model says
	s.checkStoreNode("reconcile-post", req.Name)
}

// drain runs the controller to quiescence. final: no more faults are injected and quiescence within a bounded number of
// steps is required (bounded liveness after the last fault); otherwise a capped best effort under flowing faults.
func (s *nsSim) drain(final bool) {
	r := s.r
	limit := 60 + 10*len(s.nodes)
	if final {
		s.faultsOn = false
		// without faults every key needs at most: one reconcile for what is queued, one for the echo of its own write
		limit = len(s.cmEv) + len(s.nodeEv) + len(s.sloEv) + s.q.Len() + 4*(len(s.nodes)+len(s.sloEv)+4) + 20
	}
	n := 0
	for round := 0; round < 3; round++ {
		for ; n < limit && s.step(); n++ {
		}
		if n >= limit {
			break
		}
		// let simulated time pass: anything the controller scheduled for later (a delayed retry) happens now
		time.Sleep(time.Minute)
		if len(s.cmEv)+len(s.nodeEv)+len(s.sloEv)+s.q.Len() == 0 {
			break
		}
		r.Probe("work-after-idle-time")
	}
	if len(s.cmEv)+len(s.nodeEv)+len(s.sloEv)+s.q.Len() > 0 {
		if final {
			r.OracleEval()
			s.fail("convergence", "not-quiescent", "after the last fault the controller is still busy after %d steps: queue=%d pending events cm=%d node=%d nodeslo=%d",
				n, s.q.Len(), len(s.cmEv), len(s.nodeEv), len(s.sloEv))
		}
		r.Probe("drain-capped")
		return
	}
	r.Probe("quiescent")
	s.checkStore(final)
}

// ---------------------------------------------------------------- oracle: the reference model

// observe is the model's transition for "the controller looked at the ConfigMap": absent section => defaults, parseable
// section => it is in force, unparseable section => the previously effective settings stay in force.
func (s *nsSim) observe(data map[string]string, exists bool) {
	s.observed = true
	s.expCache = map[string]nsExp{}
	for _, sec := range nsSections {
		txt, ok := data[sec.key]
		if !exists || !ok {
			delete(s.eff, sec.key)
			delete(s.effText, sec.key)
			s.kept[sec.key] = false
			continue
		}
		v, valid := nsParse(txt)
		if !valid || s.bad[sec.key+"\x00"+txt] {
			s.kept[sec.key] = true
			if !valid {
				s.r.Probe("observed-malformed-json")
			} else {
				s.r.Probe("observed-wrong-type")
			}
			if _, had := s.eff[sec.key]; had {
				s.r.Probe("kept-old-nondefault")
			}
			continue
		}
		s.kept[sec.key] = false
		s.eff[sec.key] = v
		s.effText[sec.key] = txt
		s.tagShapes(sec, v)
	}
}

// tagShapes marks histories in which the controller observed an input shape with a recorded defect.
func (s *nsSim) tagShapes(sec nsSection, v any) {
	o, _ := v.(map[string]any)
	if o == nil {
		return
	}
	switch sec.name {
	case "system":
		cl, _ := o["clusterStrategy"].(map[string]any)
		if bw, ok := cl["totalNetworkBandwidth"]; ok && bw != nil {
			for _, e := range nsEntries(o["nodeStrategies"]) {
				fields := nsEntryFields(e)
				if v, ok := fields["totalNetworkBandwidth"]; len(fields) > 0 && (!ok || v == nil) {
					s.r.Tag(nsShapeBandwidth)
				}
			}
		}
	case "hostapp":
		for _, e := range nsEntries(o["nodeConfigs"]) {
			if a, ok := e["applications"]; !ok || a == nil {
				if ca, ok := o["applications"]; ok && ca != nil {
					s.r.Tag(nsShapeNoApps)
				}
			}
		}
	}
	if sec.name != "hostapp" {
		cl, _ := o["clusterStrategy"].(map[string]any)
		for _, e := range nsEntries(o["nodeStrategies"]) {
			if nsArrayOverArray(cl, nsEntryFields(e)) {
				s.r.Tag(nsShapeArrays)
			}
		}
	}
}

// nsArrayOverArray: some path holds a non-empty array in both layers.
func nsArrayOverArray(lower, upper map[string]any) bool {
	for k, uv := range upper {
		lv, ok := lower[k]
		if !ok {
			continue
		}
		switch u := uv.(type) {
		case []any:
			if l, ok := lv.([]any); ok && len(l) > 0 && len(u) > 0 {
				return true
			}
		case map[string]any:
			if l, ok := lv.(map[string]any); ok && nsArrayOverArray(l, u) {
				return true
			}
		}
	}
	return false
}

func nsEntries(v any) []map[string]any {
	arr, _ := v.([]any)
	var out []map[string]any
	for _, e := range arr {
		if m, ok := e.(map[string]any); ok {
			out = append(out, m)
		}
	}
	return out
}

// nsEntryFields: everything in a node entry except its profile (name, selector) is a strategy field.
func nsEntryFields(e map[string]any) map[string]any {
	out := map[string]any{}
	for k, v := range e {
		if k == "name" || k == "nodeSelector" {
			continue
		}
		out[k] = v
	}
	return out
}

// nsSelMatch: Kubernetes label selector semantics on the raw JSON. No selector (or null) selects nothing, {} everything.
func nsSelMatch(sel any, labels map[string]string) bool {
	m, ok := sel.(map[string]any)
	if !ok {
		return false
	}
	if ml, ok := m["matchLabels"].(map[string]any); ok {
		for k, v := range ml {
			if have, ok := labels[k]; !ok || have != v {
				return false
			}
		}
	}
	if me, ok := m["matchExpressions"].([]any); ok {
		for _, x := range me {
			e, _ := x.(map[string]any)
			key, _ := e["key"].(string)
			op, _ := e["operator"].(string)
			vals, _ := e["values"].([]any)
			have, has := labels[key]
			in := false
			for _, v := range vals {
				if v == have {
					in = true
				}
			}
			switch op {
			case "In":
				if !has || !in {
					return false
				}
			case "NotIn":
				if has && in {
					return false
				}
			case "Exists":
				if !has {
					return false
				}
			case "DoesNotExist":
				if has {
					return false
				}
			default:
				return false
			}
		}
	}
	return true
}

func nsCopy(v any) any {
	switch t := v.(type) {
	case map[string]any:
		out := make(map[string]any, len(t))
		for k, x := range t {
			out[k] = nsCopy(x)
		}
		return out
	case []any:
		out := make([]any, len(t))
		for i, x := range t {
			out[i] = nsCopy(x)
		}
		return out
	}
	return v
}

// nsOverlay lays top over base: a key of top with a non-null value sets that field; objects recurse; scalars and arrays
// replace (arrays are atomic).
func nsOverlay(base any, top map[string]any) any {
	res, ok := nsCopy(base).(map[string]any)
	if !ok || res == nil {
		res = map[string]any{}
	}
	for k, v := range top {
		switch t := v.(type) {
		case nil:
		case map[string]any:
			res[k] = nsOverlay(res[k], t)
		default:
			res[k] = nsCopy(v)
		}
	}
	return res
}

// nsNorm removes what sets no field path: nulls, empty objects, empty arrays (as object members, bottom-up).
func nsNorm(v any) any {
	switch t := v.(type) {
	case map[string]any:
		out := map[string]any{}
		for k, x := range t {
			if n := nsNorm(x); n != nil {
				out[k] = n
			}
		}
		if len(out) == 0 {
			return nil
		}
		return out
	case []any:
		if len(t) == 0 {
			return nil
		}
		out := make([]any, len(t))
		for i, x := range t {
			out[i] = nsNorm(x)
			if out[i] == nil {
				if _, isObj := x.(map[string]any); isObj {
					out[i] = map[string]any{}
				}
			}
		}
		return out
	}
	return v
}

// expected is the statement: first matching node entry, else cluster-wide, else built-in default -- field by field.
func (s *nsSim) expected(si int, labels map[string]string) (val any, layer string) {
	sec := nsSections[si]
	o, _ := s.eff[sec.key].(map[string]any)
	layer = "default"
	if si == nsHostApp {
		var apps any
		if a, ok := o["applications"]; ok && a != nil {
			apps, layer = a, "cluster"
		}
		for i, e := range nsEntries(o["nodeConfigs"]) {
			if nsSelMatch(e["nodeSelector"], labels) {
				if a, ok := e["applications"]; ok && a != nil {
					apps = a
				}
				layer = fmt.Sprintf("entry#%d", i)
				break
			}
		}
		return nsNorm(nsCopy(apps)), layer
	}
	cur := nsCopy(s.defaults[sec.key])
	if cl, ok := o["clusterStrategy"].(map[string]any); ok {
		cur, layer = nsOverlay(cur, cl), "cluster"
	}
	for i, e := range nsEntries(o["nodeStrategies"]) {
		if nsSelMatch(e["nodeSelector"], labels) {
			cur, layer = nsOverlay(cur, nsEntryFields(e)), fmt.Sprintf("entry#%d", i)
			break
		}
	}
	return nsNorm(cur), layer
}

func nsNumStr(v any) (string, bool) {
	switch t := v.(type) {
	case json.Number:
		return t.String(), true
	case int:
		return fmt.Sprint(t), true
	case int64:
		return fmt.Sprint(t), true
	case float64:
		return fmt.Sprint(t), true
	}
	return "", false
}

// nsDiff returns the first path (sorted order) at which exp and got differ ("/" = the section as a whole), "" when equal.
func nsDiff(exp, got any, path string) string {
	here := path
	if here == "" {
		here = "/"
	}
	switch e := exp.(type) {
	case map[string]any:
		g, ok := got.(map[string]any)
		if !ok {
			return here
		}
		keys := map[string]bool{}
		for k := range e {
			keys[k] = true
		}
		for k := range g {
			keys[k] = true
		}
		ks := make([]string, 0, len(keys))
		for k := range keys {
			ks = append(ks, k)
		}
		sort.Strings(ks)
		for _, k := range ks {
			ev, eok := e[k]
			gv, gok := g[k]
			if !eok || !gok {
				return path + "/" + k
			}
			if d := nsDiff(ev, gv, path+"/"+k); d != "" {
				return d
			}
		}
		return ""
	case []any:
		g, ok := got.([]any)
		if !ok || len(g) != len(e) {
			return here
		}
		for i := range e {
			if d := nsDiff(e[i], g[i], fmt.Sprintf("%s[%d]", path, i)); d != "" {
				return d
			}
		}
		return ""
	case nil:
		if got != nil {
			return here
		}
		return ""
	}
	if es, ok := nsNumStr(exp); ok {
		if gs, ok := nsNumStr(got); ok && gs == es {
			return ""
		}
		return here
	}
	if exp != got {
		return here
	}
	return ""
}

func nsAt(v any, path string) any {
	for _, p := range strings.Split(strings.Trim(path, "/"), "/") {
		if p == "" {
			continue
		}
		name := p
		idx := -1
		if i := strings.Index(p, "["); i >= 0 {
			name = p[:i]
			fmt.Sscanf(p[i:], "[%d]", &idx)
		}
		if name != "" {
			m, ok := v.(map[string]any)
			if !ok {
				return nil
			}
			v = m[name]
		}
		if idx >= 0 {
			a, ok := v.([]any)
			if !ok || idx >= len(a) {
				return nil
			}
			v = a[idx]
		}
	}
	return v
}

func nsJSON(v any) string {
	b, _ := json.Marshal(v)
	if len(b) > 400 {
		return string(b[:400]) + "..."
	}
	return string(b)
}

func (s *nsSim) fail(oracle, detail, format string, args ...any) {
	if s.cfg.Info {
		// informational configuration: explicit zeros that a typed merge cannot represent; count, never report
		s.infoMismatches++
		s.r.Probe("info-mismatch:" + oracle + "/" + detail)
		return
	}
	s.r.Fail(oracle, detail, format, args...)
}

// specSection serialises one section of a delivered spec and parses it back without types (memoised on the serialised text).
func (s *nsSim) specSection(spec *slov1alpha1.NodeSLOSpec, si int) any {
	var v any
	switch si {
	case 0:
		v = spec.ResourceUsedThresholdWithBE
	case 1:
		v = spec.ResourceQOSStrategy
	case 2:
		v = spec.CPUBurstStrategy
	case 3:
		v = spec.SystemStrategy
	default:
		v = spec.HostApplications
	}
	b, err := json.Marshal(v)
	if err != nil {
		panic(fmt.Sprintf("nodeslo harness: marshal: %v", err))
	}
	if got, ok := s.gotCache[string(b)]; ok {
		return got
	}
	parsed, ok := nsParse(string(b))
	if !ok {
		panic("nodeslo harness: own serialisation not parseable")
	}
	got := nsNorm(parsed)
	s.gotCache[string(b)] = got
	return got
}

// compareSpec checks one delivered NodeSLOSpec against the model, section by section.
func (s *nsSim) compareSpec(oracle, where, node string, labels map[string]string, spec *slov1alpha1.NodeSLOSpec) {
	for si, sec := range nsSections {
		ck := fmt.Sprintf("%d|%s", si, nsLabelString(labels))
		ce, ok := s.expCache[ck]
		if !ok {
			ce.val, ce.layer = s.expected(si, labels)
			s.expCache[ck] = ce
		}
		exp, layer := ce.val, ce.layer
		got := s.specSection(spec, si)
		d := nsDiff(exp, got, "")
		if d == "" {
			continue
		}
		or := oracle
		if oracle == "layering" {
			if s.kept[sec.key] {
				or = "keep-old-on-error"
			} else if _, ok := s.eff[sec.key]; !ok {
				or = "absent-means-default"
			}
		}
		s.fail(or, sec.name, "%s: node %s labels %s section %s at %s: expected %s (layers in force: %s; latest text unparseable=%v) but got %s\nsection text in force: %s\nexpected strategy: %s\ndelivered strategy: %s",
			where, node, nsLabelString(labels), sec.name, d, nsJSON(nsAt(exp, d)), layer, s.kept[sec.key], nsJSON(nsAt(got, d)),
			nsJSON(s.effText[sec.key]), nsJSON(exp), nsJSON(got))
		return
	}
}

// checkNode: the spec computed by the real getNodeSLOSpec for one node is what the model says.
func (s *nsSim) checkNode(where string, n *corev1.Node) []byte {
	spec, err := s.rec.getNodeSLOSpec(n, nil)
	s.r.OracleEval()
	if err != nil || spec == nil {
		s.fail("layering", "error", "%s: getNodeSLOSpec(%s) failed: %v", where, n.Name, err)
		return nil
	}
	s.compareSpec("layering", where, n.Name, n.Labels, spec)
	b, _ := json.Marshal(spec)
	return b
}

// checkAllNodes: after an event, the spec computed by the real getNodeSLOSpec for every node is what the model says.
func (s *nsSim) checkAllNodes(where string) {
	h := uint64(0)
	for _, name := range s.nodeNames() {
		h = sim.Mix(h, sim.HashString(name+string(s.checkNode(where, s.nodes[name]))))
	}
	s.r.Event("specs %s %016x", where, h)
}

// checkStoreNode: the NodeSLO object of one node in the store against the model.
func (s *nsSim) checkStoreNode(oracle, name string) {
	s.r.OracleEval()
	slo := &slov1alpha1.NodeSLO{}
	err := s.base.Get(s.ctx, types.NamespacedName{Name: name}, slo)
	n := s.nodes[name]
	switch {
	case n == nil && err == nil:
		s.fail(oracle, "orphan-nodeslo", "NodeSLO %s exists although node %s does not", name, name)
	case n != nil && err != nil:
		s.fail(oracle, "missing-nodeslo", "node %s has no NodeSLO: %v", name, err)
	case n != nil:
		s.compareSpec(oracle, "NodeSLO object in the store", name, n.Labels, &slo.Spec)
	}
}

// checkStore: at quiescence every node has a NodeSLO carrying the expected spec and there is no NodeSLO without a node.
func (s *nsSim) checkStore(final bool) {
	oracle := "quiescent-store"
	if final {
		oracle = "convergence"
	}
	slos := &slov1alpha1.NodeSLOList{}
	if err := s.base.List(s.ctx, slos); err != nil {
		s.r.HarnessFail("list nodeslo: %v", err)
	}
	names := map[string]bool{}
	for _, n := range s.nodeNames() {
		names[n] = true
	}
	for i := range slos.Items {
		names[slos.Items[i].Name] = true
	}
	all := make([]string, 0, len(names))
	for n := range names {
		all = append(all, n)
	}
	sort.Strings(all)
	if len(all) == 0 {
		s.r.OracleEval()
	}
	for _, n := range all {
		s.checkStoreNode(oracle, n)
	}
	s.r.Event("store checked %d", len(all))
}
