//go:build verif

package elasticquota

// Engine `quota`, C19 mode ("scheduler allocation state survives a restart unchanged"): quota assignment.
//
// What the scheduler persists for elastic quota at bind time is the pod itself: its quota label and, through
// the bind, spec.nodeName. The history is the one of C01/C03 (same store, same generator, the real plugin:
// event handlers, PreFilter / Reserve / Unreserve, migrateDefaultQuotaGroupsPod), but it is driven at
// OPERATION level by the driver goroutine (r.Choose picks the next party: an informer delivery, the next API
// operation or scheduling attempt, a pending bind, the migration tick), because C19 is about crash points and
// start-up delivery orders, not about lock-level interleavings; every call into the plugin is atomic.
//
// The crash axis is ENUMERATED: after every successful bind (plus a seeded sample of later points and the end
// of the history) the run forks: the live summaries are taken, a FRESH plugin is started the way the real
// start-up does it (cmd/koord-scheduler/app/server.go startInformersAndWaitForSync + Plugin.New):
//   step 1  the plugin-private ElasticQuota informer syncs: OnQuotaAdd for every quota, in any order;
//   step 2  the AfterPluginInformersSynced hook: ReplaceQuotas(store list, any order);
//   step 3  the main informers: OnPodAdd / OnNodeAdd for every pod and node, the two lists interleaved in any order;
//   then    the migrateDefaultQuotaGroupsPod tick;
// and it is checked against the figures the store implies (used = sum of the requests of BOUND pods per
// subtree, ...), then receives duplicate adds, Update(obj,obj) and updates carrying the same assignment and is
// checked again; finally, when the history carries no tag of a defect recorded for C01 and the live plugin is
// not behind the store, the rebuilt summaries are compared with the live ones restricted to bound pods (a pod
// that is only reserved legitimately loses its `used`).

import (
	"context"
	"fmt"
	"sort"
	"strings"

	corev1 "k8s.io/api/core/v1"
	fwktype "k8s.io/kube-scheduler/framework"
	"k8s.io/kubernetes/pkg/scheduler/framework"

	"github.com/koordinator-sh/koordinator/apis/extension"
	"github.com/koordinator-sh/koordinator/pkg/scheduler/plugins/elasticquota/core"
)

const c19QuotaOrder = "order=quotas-synced-before-pods"

type c19Bind struct {
	op  qOp
	pod *corev1.Pod // the object the scheduling cycle works on
}

type c19State struct {
	binds   []*c19Bind
	anyBind bool
	forkNow string
	drain   bool
	// pods whose quota label or requests changed (event handled by the plugin) while their scheduling cycle was
	// in flight: history class "stale-pod-object" of C01. OnPodUpdate moves such a pod WITHOUT its reservation, so
	// until the echo of its bind is handled the live plugin does not charge it where the stored label says.
	changedInFlight map[string]bool
}

func (s *qSim) taggedForC01() bool {
	for k := range s.r.Stats.Probes {
		if strings.HasPrefix(k, "tag:") {
			return true
		}
	}
	return false
}

func (s *qSim) pendingEvents() int {
	n := 0
	for _, q := range s.queues {
		n += len(q)
	}
	return n
}

// parkedPods: pods cached in the default quota although their label names a quota the store holds (their own
// quota was unknown when the add was handled; the 1s migration tick moves them).
func (s *qSim) parkedPods(pl *Plugin) int {
	d := pl.groupQuotaManager.GetQuotaInfoByName(extension.DefaultQuotaName)
	if d == nil {
		return 0
	}
	n := 0
	for _, pod := range d.GetPodCache() {
		if q := pod.Labels[extension.LabelQuotaName]; s.st.quotas[q] != nil {
			n++
		}
	}
	return n
}

func (s *qSim) executeC19(ops []qOp) {
	r := s.r
	c := &c19State{changedInFlight: map[string]bool{}}
	s.c19Echo, s.c19StaleEcho = map[any]bool{}, map[any]bool{}
	for _, w := range []*int{&s.cfg.WDel, &s.cfg.WOp, &s.cfg.WBind} {
		if *w < 1 {
			*w = 1
		}
	}
	opi := 0
	type action struct {
		name string
		w    int
		fn   func()
	}
	for steps := 0; ; steps++ {
		if steps > 5000 {
			r.HarnessFail("C19 driver did not terminate")
		}
		var acts []action
		for _, typ := range []string{"quota", "pod", "node"} {
			typ := typ
			if len(s.queues[typ]) > 0 {
				acts = append(acts, action{"deliver-" + typ, s.cfg.WDel, func() {
					ev := s.queues[typ][0]
					s.queues[typ] = s.queues[typ][1:]
					if typ == "pod" && ev.kind == "update" {
						op, np := ev.old.(*corev1.Pod), ev.new.(*corev1.Pod)
						if s.inFlight[np.Name] && !s.c19Echo[ev.new] && (op.Labels[extension.LabelQuotaName] != np.Labels[extension.LabelQuotaName] || !eqRL(fromRL(core.PodRequests(op)), fromRL(core.PodRequests(np)))) {
							c.changedInFlight[np.Name] = true
						}
					}
					s.deliver(ev)
				}})
			}
		}
		if len(c.binds) > 0 {
			acts = append(acts, action{"bind", s.cfg.WBind, func() { s.c19BindStep(c) }})
		}
		if c.drain && len(acts) > 0 {
			// a barrier: nothing new happens until everything pending has been processed
		} else {
			c.drain = false
			if opi < len(ops) {
				acts = append(acts, action{"op", s.cfg.WOp, func() {
					op := ops[opi]
					opi++
					s.c19Op(c, op)
				}})
			}
			if s.parkedPods(s.pl) > 0 {
				acts = append(acts, action{"migrate-tick", 1, func() {
					s.pl.migrateDefaultQuotaGroupsPod()
					r.Event("migrate tick")
					r.Probe("c19-migrate-tick")
				}})
			}
		}
		if len(acts) == 0 {
			break
		}
		if len(acts) == 1 && acts[0].name == "migrate-tick" && opi >= len(ops) {
			acts[0].fn()
			if s.parkedPods(s.pl) > 0 {
				break // nothing moves them (their quota is unknown to the plugin's tree map)
			}
			continue
		}
		total := 0
		for _, a := range acts {
			total += a.w
		}
		v := r.Choose(total)
		pick := &acts[0]
		for i := range acts {
			if v < acts[i].w {
				pick = &acts[i]
				break
			}
			v -= acts[i].w
		}
		r.Event("step %s", pick.name)
		pick.fn()
		if c.forkNow != "" {
			t := c.forkNow
			c.forkNow = ""
			s.c19Fork(c, t)
		} else if c.anyBind && r.Flip(0.1) {
			s.c19Fork(c, "later-point")
		}
	}
	s.pl.migrateDefaultQuotaGroupsPod()
	if c.anyBind {
		s.c19Fork(c, "end-of-history")
	}
}

func (s *qSim) c19Op(c *c19State, op qOp) {
	r := s.r
	switch op.K {
	case "barrier":
		c.drain = true
		return
	case "schedule":
		if s.foreign[op.P] {
			r.OpSkipped()
			return
		}
		s.everScheduled[op.P] = true
		s.c19Cycle(c, op)
		return
	case "pod_bind_external":
		if s.everScheduled[op.P] {
			// only pods this scheduler never tried to place are bound by somebody else
			r.OpSkipped()
			return
		}
	}
	var removedChild *mQuota
	if s.cfg.Guarantee && (op.K == "quota_reparent" || op.K == "quota_delete") {
		removedChild = s.st.quotas[op.Q]
	}
	evs, ok := s.st.apply(&op)
	if !ok {
		r.OpSkipped()
		return
	}
	if op.K == "pod_bind_external" {
		s.foreign[op.P] = true
		r.Probe("c19-pod-bound-externally")
	}
	if removedChild != nil && removedChild.Parent != extension.RootQuotaName {
		r.Tag("guarantee-gate-child-removed")
	}
	if removedChild != nil && op.K == "quota_reparent" && len(s.st.children(op.Q)) > 0 {
		r.Tag("guarantee-gate-parent-reparented")
	}
	r.OpDone()
	r.Sample("%s q=%s p=%s n=%s parent=%s", op.K, op.Q, op.P, op.N, op.Parent)
	r.Event("api %s %s%s%s", op.K, op.Q, op.P, op.N)
	s.emit(evs)
}

// c19Cycle: one scheduling attempt, PreFilter then Reserve, on the pod as the scheduler's own listener has it.
func (s *qSim) c19Cycle(c *c19State, op qOp) {
	r := s.r
	pod := s.delivered[op.P]
	if pod == nil || pod.Spec.NodeName != "" || s.inFlight[op.P] {
		r.OpSkipped()
		return
	}
	var status *fwktype.Status
	s.aroundPodEvent(pod, func() { _, status = s.pl.PreFilter(context.TODO(), framework.NewCycleState(), pod, nil) })
	r.Event("prefilter %s %v", op.P, status.Code())
	r.OpDone()
	if !status.IsSuccess() {
		r.Probe("c19-prefilter-rejected")
		return
	}
	var st *fwktype.Status
	s.staleCycleObject(pod)
	s.aroundPodEvent(pod, func() { st = s.pl.Reserve(context.TODO(), framework.NewCycleState(), pod, "node-0") })
	if !st.IsSuccess() {
		r.Fail("reserve", "", "Reserve failed: %v", st.Message())
	}
	s.inFlight[op.P] = true
	c.changedInFlight[op.P] = false
	c.binds = append(c.binds, &c19Bind{op: op, pod: pod})
	r.Event("reserved %s", op.P)
}

func (s *qSim) c19BindStep(c *c19State) {
	r := s.r
	i := r.Choose(len(c.binds))
	b := c.binds[i]
	c.binds = append(append([]*c19Bind{}, c.binds[:i]...), c.binds[i+1:]...)
	unreserve := func(why string) {
		s.staleCycleObject(b.pod)
		s.aroundPodEvent(b.pod, func() { s.pl.Unreserve(context.TODO(), framework.NewCycleState(), b.pod, "node-0") })
		s.inFlight[b.op.P] = false
		r.Event("%s %s", why, b.op.P)
		r.Probe("c19-" + why)
	}
	if b.op.Fail {
		unreserve("unreserve")
		return
	}
	cur := s.st.pods[b.op.P]
	if cur == nil || cur.Node != "" {
		unreserve("bind-conflict-unreserve")
		return
	}
	np := *cur
	np.Node = "node-0"
	s.st.rv++
	np.rv = s.st.rv
	s.st.pods[b.op.P] = &np
	echo := np.obj()
	s.c19Echo[echo] = true
	if c.changedInFlight[b.op.P] || b.pod.Labels[extension.LabelQuotaName] != np.Quota || !eqRL(fromRL(core.PodRequests(b.pod)), fromRL(core.PodRequests(echo))) {
		// the pod was relabelled / resized while its scheduling cycle was in flight: the cycle charged the quota of its
		// older copy (history class "stale-pod-object" of C01); until the echo of the bind is handled the live plugin
		// does not hold the pod as assigned in the quota the stored label names
		s.c19StaleEcho[echo] = true
		r.Probe("c19-bound-from-stale-cycle-object")
	}
	s.queues["pod"] = append(s.queues["pod"], qEvent{kind: "update", typ: "pod", old: cur.obj(), new: echo})
	// inFlight stays set: kube-scheduler never hands out a pod again that it has bound
	r.Event("bound %s", b.op.P)
	r.Probe("c19-pod-bound")
	// (a) the persisted assignment reads back through the real accessor: quota label and node of the stored object
	r.OracleEval()
	if got := extension.GetQuotaName(echo); got != np.Quota || echo.Spec.NodeName != np.Node {
		r.Fail("codec", "quota-label", "pod %s was bound with quota label %q on node %q, the stored object reads back as quota %q node %q", b.op.P, np.Quota, np.Node, got, echo.Spec.NodeName)
	}
	c.anyBind, c.forkNow = true, "pod-bind"
}

// ---------------------------------------------------------------- the fork

func (s *qSim) c19Shuffle(xs []string) []string {
	out := append([]string(nil), xs...)
	for i := 0; i+1 < len(out); i++ {
		j := i + s.r.Choose(len(out)-i)
		out[i], out[j] = out[j], out[i]
	}
	return out
}

func sortedNames[V any](m map[string]V) []string {
	out := make([]string, 0, len(m))
	for k := range m {
		out = append(out, k)
	}
	sort.Strings(out)
	return out
}

// c19Startup builds a fresh plugin and feeds it the store's objects as the real start-up does.
func (s *qSim) c19Startup() *Plugin {
	r := s.r
	f := newPlugin(s.cfg)
	// step 1: the ElasticQuota informer's initial list through the registered handler, any order (a child
	// before its parent included), possibly with repeats
	stored := map[string]*mQuota{} // every ElasticQuota object of the store, the built-in quotas' objects included
	for n, q := range s.st.quotas {
		stored[n] = q
	}
	for n, q := range s.st.builtin {
		stored[n] = q
	}
	if len(s.st.builtin) > 0 {
		r.Probe("c19-store-has-object-of-a-built-in-quota")
	}
	qn := s.c19Shuffle(sortedNames(stored))
	for _, n := range qn {
		f.OnQuotaAdd(stored[n].obj())
		r.Event("fork add quota %s", n)
		if r.Flip(0.1) {
			f.OnQuotaAdd(stored[n].obj())
			r.Probe("c19-extra-duplicate-add")
		}
	}
	// step 2: the AfterPluginInformersSynced hook
	var objs []interface{}
	for _, n := range s.c19Shuffle(sortedNames(stored)) {
		objs = append(objs, stored[n].obj())
	}
	if err := f.ReplaceQuotas(objs); err != nil {
		r.Fail("startup", "replace-quotas-failed", "ReplaceQuotas: %v", err)
	}
	r.Event("fork replace quotas %d", len(objs))
	// step 3: pods and nodes, two informers of the main factory, mutually unordered
	ps := s.c19Shuffle(sortedNames(s.st.pods))
	ns := s.c19Shuffle(sortedNames(s.st.nodes))
	for len(ps) > 0 || len(ns) > 0 {
		if len(ns) > 0 && (len(ps) == 0 || r.Choose(3) == 2) {
			f.OnNodeAdd(s.st.nodes[ns[0]].obj())
			r.Event("fork add node %s", ns[0])
			ns = ns[1:]
			continue
		}
		f.OnPodAdd(s.st.pods[ps[0]].obj())
		r.Event("fork add pod %s", ps[0])
		ps = ps[1:]
	}
	return f
}

func (s *qSim) c19Fork(c *c19State, trigger string) {
	r := s.r
	r.OracleEval()
	r.Probe("c19-fork")
	r.Probe("c19-fork-at:" + trigger)
	r.Event("fork %s", trigger)
	model := s.modelAggregates()
	live := s.pl.groupQuotaManager.GetQuotaSummaries(true)

	f := s.c19Startup()
	if n := s.parkedPods(f); n > 0 {
		r.Probe("c19-rebuilt-had-parked-pods-before-tick")
	}
	f.migrateDefaultQuotaGroupsPod()
	s.c19CheckRebuilt(f, model, "initial-list")

	// after the initial lists: duplicates, resyncs, updates that carry the same assignment
	if n := r.Choose(4); n > 0 {
		pn, qn, nn := sortedNames(s.st.pods), sortedNames(s.st.quotas), sortedNames(s.st.nodes)
		for i := 0; i < n; i++ {
			kind := r.Choose(3)
			switch t := r.Choose(6); {
			case t < 4 && len(pn) > 0:
				p := s.st.pods[pn[r.Choose(len(pn))]]
				switch kind {
				case 0:
					f.OnPodAdd(p.obj())
					r.Probe("c19-extra-duplicate-add")
				case 1:
					f.OnPodUpdate(p.obj(), p.obj())
					r.Probe("c19-extra-resync-update")
				default:
					o := p.obj()
					o.ResourceVersion += "1"
					o.Annotations = map[string]string{"verif/touched": "1"}
					f.OnPodUpdate(p.obj(), o)
					r.Probe("c19-extra-same-assignment-update")
				}
				r.Event("fork extra pod %d %s", kind, p.Name)
			case t == 4 && len(qn) > 0:
				q := s.st.quotas[qn[r.Choose(len(qn))]]
				switch kind {
				case 0:
					f.OnQuotaAdd(q.obj())
					r.Probe("c19-extra-duplicate-add")
				case 1:
					f.OnQuotaUpdate(q.obj(), q.obj())
					r.Probe("c19-extra-resync-update")
				default:
					o := q.obj()
					o.ResourceVersion += "1"
					o.Annotations["verif/touched"] = "1"
					f.OnQuotaUpdate(q.obj(), o)
					r.Probe("c19-extra-same-assignment-update")
				}
				r.Event("fork extra quota %d %s", kind, q.Name)
			case len(nn) > 0:
				nd := s.st.nodes[nn[r.Choose(len(nn))]]
				if kind == 0 {
					f.OnNodeAdd(nd.obj())
					r.Probe("c19-extra-duplicate-add")
				} else {
					f.OnNodeUpdate(nd.obj(), nd.obj())
					r.Probe("c19-extra-resync-update")
				}
				r.Event("fork extra node %d %s", kind, nd.Name)
			}
		}
		f.migrateDefaultQuotaGroupsPod()
		s.c19CheckRebuilt(f, model, "after-repeats")
	}
	s.c19CompareWithLive(c, live, f.groupQuotaManager.GetQuotaSummaries(true))
}

// c19CheckRebuilt: (b)/(c) the rebuilt plugin against what the store implies: every pod cached in the quota its
// label resolves to, assigned iff bound; used / nonPreemptibleUsed / selfUsed = sums over BOUND pods per subtree;
// the request figures per the statement of C01.
func (s *qSim) c19CheckRebuilt(f *Plugin, model map[string]*mAgg, phase string) {
	r := s.r
	oc := phase + "/" + c19QuotaOrder
	sums := f.groupQuotaManager.GetQuotaSummaries(true)
	names := sortedSummaryNames(sums)
	// the limits a restarted scheduler enforces are the ones the stored objects declare (the built-in quotas' too)
	for _, n := range sortedNames(s.st.builtin) {
		q := s.st.builtin[n]
		if sum := sums[n]; sum == nil || !eqRL(fromRL(sum.Max), q.Max) {
			got := "no such quota"
			if sum != nil {
				got = fmtRL(fromRL(sum.Max))
			}
			r.Fail("rebuilt-config", "builtin-max/"+oc, "after a restart (%s) the built-in quota %s has max %s, its stored object declares %s", phase, n, got, fmtRL(q.Max))
		}
	}
	for _, n := range sortedNames(s.st.quotas) {
		q := s.st.quotas[n]
		if sum := sums[n]; sum != nil && !eqRL(fromRL(sum.Max), q.Max) {
			r.Fail("rebuilt-config", "max/"+oc, "after a restart (%s) quota %s has max %s, its stored object declares %s", phase, n, fmtRL(fromRL(sum.Max)), fmtRL(q.Max))
		}
	}
	where := map[string]string{}
	for _, n := range names {
		keys := make([]string, 0, len(sums[n].PodCache))
		for k := range sums[n].PodCache {
			keys = append(keys, k)
		}
		sort.Strings(keys)
		for _, key := range keys {
			pi := sums[n].PodCache[key]
			if prev, dup := where[key]; dup {
				r.Fail("rebuilt-membership", "pod-in-two-quotas/"+oc, "after a restart (%s) pod %s is cached in both %s and %s", phase, key, prev, n)
			}
			where[key] = n
			mp := s.st.pods[key[strings.Index(key, "/")+1:]]
			if mp == nil {
				r.Fail("rebuilt-membership", "ghost-pod/"+oc, "after a restart (%s) quota %s caches pod %s which is not in the store", phase, n, key)
			}
			if want := s.resolveQuota(mp); want != n {
				r.Fail("rebuilt-membership", "wrong-quota/"+oc, "after a restart (%s) pod %s (label %s) is cached in %s, its label resolves to %s", phase, key, mp.Quota, n, want)
			}
			if pi.IsAssigned != (mp.Node != "") {
				d := "bound-pod-not-assigned" // what the pod took before the restart is free after it
				if pi.IsAssigned {
					d = "unbound-pod-assigned"
				}
				r.Fail("rebuilt-membership", d+"/"+oc, "after a restart (%s) pod %s in quota %s has isAssigned=%v but spec.nodeName=%q", phase, key, n, pi.IsAssigned, mp.Node)
			}
		}
	}
	for _, pn := range sortedNames(s.st.pods) {
		if _, ok := where["default/"+pn]; !ok {
			r.Fail("rebuilt-membership", "lost-pod/"+oc, "after a restart (%s) pod %s (label %s, node %q) is in no quota's pod cache", phase, pn, s.st.pods[pn].Quota, s.st.pods[pn].Node)
		}
	}
	for _, n := range names {
		q, m := sums[n], model[n]
		if m == nil {
			r.Fail("rebuilt-membership", "ghost-quota/"+oc, "after a restart (%s) quota %s is reported but not in the store", phase, n)
		}
		chk := func(field string, got corev1.ResourceList, want rl) {
			g := fromRL(got)
			if eqRL(g, want) {
				return
			}
			d := "differs"
			under, over := false, false
			for _, dim := range qDims {
				if g[dim] < want[dim] {
					under = true
				}
				if g[dim] > want[dim] {
					over = true
				}
			}
			if under && !over {
				d = "under"
			} else if over && !under {
				d = "over"
			}
			r.Fail("rebuilt-"+field, d+"/"+oc, "after a restart (%s) quota %s reports %s=%s; the surviving objects imply %s", phase, n, field, fmtRL(g), fmtRL(want))
		}
		chk("used", q.Used, m.used)
		chk("nonPreemptibleUsed", q.NonPreemptibleUsed, m.npUsed)
		chk("selfUsed", q.SelfUsed, m.selfUsed)
		chk("selfRequest", q.SelfRequest, m.selfReq)
		chk("childRequest", q.ChildRequest, m.childReq)
		chk("request", q.Request, m.req)
		chk("nonPreemptibleRequest", q.NonPreemptibleRequest, m.npReq)
	}
	for _, n := range sortedNames(s.st.quotas) {
		if sums[n] == nil {
			r.Fail("rebuilt-membership", "lost-quota/"+oc, "after a restart (%s) quota %s of the store is not reported", phase, n)
		}
	}
	r.Probe("c19-rebuilt-checked:" + phase)
}

// c19CompareWithLive: (b) rebuilt == live restricted to bound pods.
func (s *qSim) c19CompareWithLive(c *c19State, live, rebuilt map[string]*core.QuotaInfoSummary) {
	r := s.r
	if s.taggedForC01() {
		r.Probe("c19-compared-with-model-only:history-tagged-for-C01")
		return
	}
	for _, typ := range []string{"quota", "pod", "node"} {
		for _, ev := range s.queues[typ] {
			if !s.c19Echo[ev.new] {
				r.Probe("c19-compared-with-model-only:live-" + typ + "-events-pending")
				return
			}
			if s.c19StaleEcho[ev.new] {
				r.Probe("c19-compared-with-model-only:live-bind-echo-of-stale-cycle-object-pending")
				return
			}
		}
	}
	if s.parkedPods(s.pl) > 0 {
		r.Probe("c19-compared-with-model-only:live-has-parked-pods")
		return
	}
	// pods that are only reserved (their bind has not happened): they legitimately lose their `used`
	reservedOnly := map[string]*mPod{}
	for _, b := range c.binds {
		if mp := s.st.pods[b.op.P]; mp != nil && mp.Node == "" {
			if c.changedInFlight[b.op.P] || b.pod.Labels[extension.LabelQuotaName] != mp.Quota || !eqRL(fromRL(core.PodRequests(b.pod)), fromRL(core.PodRequests(mp.obj()))) {
				// relabelled / resized while reserved (history class "stale-pod-object" of C01): OnPodUpdate moved the pod
				// to the quota of the new label WITHOUT its reservation, so which quota the live plugin charges for it is
				// not what the stored label says
				r.Probe("c19-compared-with-model-only:live-reserved-pod-changed-while-in-flight")
				return
			}
			reservedOnly[b.op.P] = mp
			r.Probe("c19-live-has-reserved-only-pod")
		} else {
			// the pod was deleted or bound by somebody else while reserved here; its events are delivered (nothing
			// is pending), the reservation is rolled back at the bind step
			r.Probe("c19-live-has-reserved-pod-gone-or-bound-elsewhere")
		}
	}
	sub := map[string]rl{}     // quota -> requests of reserved-only pods in its subtree
	subNP := map[string]rl{}   // the non-preemptible ones
	subSelf := map[string]rl{} // quota -> requests of its own reserved-only pods
	for _, pn := range sortedNames(reservedOnly) {
		mp := reservedOnly[pn]
		req := maskDims(mp.Req)
		qn := s.resolveQuota(mp)
		subSelf[qn] = addRL(subSelf[qn], req)
		for x := qn; x != extension.RootQuotaName; {
			sub[x] = addRL(sub[x], req)
			if mp.NonPre {
				subNP[x] = addRL(subNP[x], req)
			}
			if q := s.st.quotas[x]; q != nil {
				x = q.Parent
			} else {
				x = extension.RootQuotaName
			}
		}
	}
	neg := func(m rl) rl {
		out := rl{}
		for k, v := range m {
			out[k] = -v
		}
		return out
	}
	names := sortedSummaryNames(live)
	if len(live) != len(rebuilt) {
		r.Fail("live-vs-rebuilt", "quota-count/"+c19QuotaOrder, "the live plugin reports %v, the rebuilt one %v", names, sortedSummaryNames(rebuilt))
	}
	for _, n := range names {
		a, b := live[n], rebuilt[n]
		if b == nil {
			r.Fail("live-vs-rebuilt", "quota-missing-rebuilt/"+c19QuotaOrder, "quota %s is reported by the live plugin but not by the rebuilt one", n)
		}
		cmp := func(field string, x rl, y corev1.ResourceList) {
			if !eqRL(x, fromRL(y)) {
				r.Fail("live-vs-rebuilt", field+"/"+c19QuotaOrder, "quota %s %s: live restricted to bound pods %s, rebuilt %s (reserved-only pods %v)", n, field, fmtRL(x), fmtRL(fromRL(y)), sortedNames(reservedOnly))
			}
		}
		cmp("used", addRL(fromRL(a.Used), neg(sub[n])), b.Used)
		cmp("nonPreemptibleUsed", addRL(fromRL(a.NonPreemptibleUsed), neg(subNP[n])), b.NonPreemptibleUsed)
		cmp("selfUsed", addRL(fromRL(a.SelfUsed), neg(subSelf[n])), b.SelfUsed)
		cmp("request", fromRL(a.Request), b.Request)
		cmp("selfRequest", fromRL(a.SelfRequest), b.SelfRequest)
		cmp("childRequest", fromRL(a.ChildRequest), b.ChildRequest)
		cmp("nonPreemptibleRequest", fromRL(a.NonPreemptibleRequest), b.NonPreemptibleRequest)
		var ka, kb []string
		for k := range a.PodCache {
			ka = append(ka, k)
		}
		for k := range b.PodCache {
			kb = append(kb, k)
		}
		sort.Strings(ka)
		sort.Strings(kb)
		if strings.Join(ka, ",") != strings.Join(kb, ",") {
			r.Fail("live-vs-rebuilt", "podcache/"+c19QuotaOrder, "quota %s caches %v live, %v rebuilt", n, ka, kb)
		}
		for _, k := range ka {
			la, lb := a.PodCache[k].IsAssigned, b.PodCache[k].IsAssigned
			if _, ro := reservedOnly[k[strings.Index(k, "/")+1:]]; ro {
				if !la || lb {
					r.Fail("live-vs-rebuilt", "isAssigned-reserved-only/"+c19QuotaOrder, "pod %s is reserved, not bound: live isAssigned=%v (want true), rebuilt %v (want false)", k, la, lb)
				}
				continue
			}
			if la != lb {
				r.Fail("live-vs-rebuilt", fmt.Sprintf("isAssigned=%v-live/%s", la, c19QuotaOrder), "pod %s in quota %s: isAssigned live=%v rebuilt=%v", k, n, la, lb)
			}
		}
	}
	r.Probe("c19-compared-with-live")
}
