//go:build verif

package elasticquota

// Engine `quota` (C01, C02, C03): the real elasticquota Plugin (event handlers,
// PreFilter/Reserve/Unreserve, migrateDefaultQuotaGroupsPod) and the whole core
// package run under the token-passing scheduler; informer delivery, binding and
// summary readers are separate actors interleaved at every instrumented lock.
// See /verif/DESIGN.md §4 C01-C03.

import (
	"context"
	"encoding/json"
	"fmt"
	"math/big"
	"sort"
	"strings"
	"testing"

	corev1 "k8s.io/api/core/v1"
	"k8s.io/apimachinery/pkg/api/resource"
	metav1 "k8s.io/apimachinery/pkg/apis/meta/v1"
	"k8s.io/apimachinery/pkg/types"
	k8sfeature "k8s.io/apiserver/pkg/util/feature"
	fwktype "k8s.io/kube-scheduler/framework"
	"k8s.io/kubernetes/pkg/scheduler/framework"

	"github.com/koordinator-sh/koordinator/apis/extension"
	"github.com/koordinator-sh/koordinator/apis/thirdparty/scheduler-plugins/pkg/apis/scheduling/v1alpha1"
	koordfeatures "github.com/koordinator-sh/koordinator/pkg/features"
	"github.com/koordinator-sh/koordinator/pkg/scheduler/apis/config"
	"github.com/koordinator-sh/koordinator/pkg/scheduler/plugins/elasticquota/core"
	sim "github.com/koordinator-sh/koordinator/pkg/verifsim"
)

func TestVerifSim(t *testing.T) { sim.Main(t, &quotaEngine{}) }

type quotaEngine struct{}

func (quotaEngine) Name() string { return "quota" }

// ---------------------------------------------------------------- plan types

type rl map[string]int64 // cpu in milli-cores, everything else in units

type qCfg struct {
	Runtime     bool `json:"runtime"`
	CheckParent bool `json:"check_parent"`
	ScaleMin    bool `json:"scale_min"`
	Readers     int  `json:"readers"`
	Migrator    bool `json:"migrator"`
	Serial      bool `json:"serial"`    // every burst has one op (strict sequential history)
	Guarantee   bool `json:"guarantee"` // feature gate ElasticQuotaGuaranteeUsage (no quota lends; guaranteed = max(allocated, min))
	// QuotaFirst: the pod informer and the scheduler proceed only while the quota informer has nothing pending, so the
	// plugin knows every quota before it sees a pod of it. Such runs stay outside the history classes of several recorded
	// findings (parked pods, pod add overlapping its own quota's add, admission while the quota is unknown) and keep their
	// full sensitivity for everything else.
	QuotaFirst bool `json:"quota_first,omitempty"`
	// C19 only (quota_c19_verif_test.go): weights of the driver's choice between delivering a pending informer
	// event, the next API operation / scheduling attempt, and a pending bind
	WDel  int `json:"w_deliver,omitempty"`
	WOp   int `json:"w_op,omitempty"`
	WBind int `json:"w_bind,omitempty"`
}

type qOp struct {
	K      string `json:"k"`
	Q      string `json:"q,omitempty"`
	P      string `json:"p,omitempty"`
	N      string `json:"n,omitempty"`
	Parent string `json:"parent,omitempty"`
	IsPar  bool   `json:"is_parent,omitempty"`
	Lent   bool   `json:"lent,omitempty"`
	Min    rl     `json:"min,omitempty"`
	Max    rl     `json:"max,omitempty"`
	W      rl     `json:"w,omitempty"`
	Req    rl     `json:"req,omitempty"`
	NonPre bool   `json:"nonpre,omitempty"`
	Early  bool   `json:"early,omitempty"` // pod_create: the label names a quota that does not exist (yet); the pod lives in the default quota until the quota appears
	Fail   bool   `json:"bind_fails,omitempty"`
	Serial bool   `json:"serial,omitempty"` // scheduling attempt executed while nothing else runs (strict verdict oracle)
	Barr   bool   `json:"barrier,omitempty"`
}

var qDims = []string{"cpu", "memory"}

// ---------------------------------------------------------------- model store (the "API server")

type mQuota struct {
	Name, Parent string
	IsPar, Lent  bool
	Min, Max, W  rl
	rv           int
	maxLowered   bool
}

type mPod struct {
	Name, Quota string
	Req         rl
	NonPre      bool
	Node        string
	rv          int
	uid         string
}

type mNode struct {
	Name  string
	Alloc rl
	rv    int
}

type qStore struct {
	quotas map[string]*mQuota
	pods   map[string]*mPod
	nodes  map[string]*mNode
	rv     int
	// suspended: quotas that received usage which did not pass this scheduler's
	// admission (C03's "used <= max" invariant is suspended for exactly these).
	suspended map[string]bool
	// builtin: ElasticQuota OBJECTS an administrator stored for the built-in default / system quota (to lower their max).
	// Kept apart from quotas: the reference models treat the built-in quotas as internal. Only the C19 mode generates them.
	builtin map[string]*mQuota
}

func newQStore() *qStore {
	return &qStore{quotas: map[string]*mQuota{}, pods: map[string]*mPod{}, nodes: map[string]*mNode{}, suspended: map[string]bool{}, builtin: map[string]*mQuota{}}
}

func (s *qStore) suspendChain(q string) {
	for i := 0; i < 64 && q != "" && q != extension.RootQuotaName; i++ {
		s.suspended[q] = true
		c := s.quotas[q]
		if c == nil {
			return
		}
		q = c.Parent
	}
}

func (s *qStore) children(q string) []string {
	var out []string
	for n, c := range s.quotas {
		if c.Parent == q {
			out = append(out, n)
		}
	}
	sort.Strings(out)
	return out
}

func (s *qStore) podsIn(q string) int {
	n := 0
	for _, p := range s.pods {
		if p.Quota == q {
			n++
		}
	}
	return n
}

func (s *qStore) isDesc(q, anc string) bool {
	for i := 0; i < 64 && q != "" && q != extension.RootQuotaName; i++ {
		if q == anc {
			return true
		}
		c := s.quotas[q]
		if c == nil {
			return false
		}
		q = c.Parent
	}
	return false
}

func leq(a, b rl) bool {
	for _, d := range qDims {
		if a[d] > b[d] {
			return false
		}
	}
	return true
}

// admissible mirrors what the admission webhook guarantees about the API state
// (C15): parent exists and is a parent, min<=max, children's min sum <= parent's min,
// acyclic. The scheduler plugin only ever sees such objects.
func (s *qStore) admissible(q *mQuota) bool {
	if !leq(q.Min, q.Max) {
		return false
	}
	for _, d := range qDims {
		if q.Max[d] <= 0 || q.Min[d] < 0 {
			return false
		}
	}
	if q.Parent != extension.RootQuotaName {
		p := s.quotas[q.Parent]
		if p == nil || !p.IsPar || s.isDesc(q.Parent, q.Name) {
			return false
		}
		sum := rl{}
		for _, c := range s.children(q.Parent) {
			if c == q.Name {
				continue
			}
			for _, d := range qDims {
				sum[d] += s.quotas[c].Min[d]
			}
		}
		for _, d := range qDims {
			if sum[d]+q.Min[d] > p.Min[d] {
				return false
			}
		}
	}
	// own children must still fit
	sum := rl{}
	for _, c := range s.children(q.Name) {
		for _, d := range qDims {
			sum[d] += s.quotas[c].Min[d]
		}
	}
	if len(s.children(q.Name)) > 0 && !leq(sum, q.Min) {
		return false
	}
	return true
}

type qEvent struct {
	kind     string // add | update | delete
	typ      string // quota | pod | node
	old, new any
}

// apply executes one API-level operation on the store; it returns the watch
// events it produces, or ok=false when the op is not applicable in this state.
func (s *qStore) apply(op *qOp) (evs []qEvent, ok bool) {
	switch op.K {
	case "builtin_quota_set":
		if op.Q != extension.DefaultQuotaName && op.Q != extension.SystemQuotaName {
			return nil, false
		}
		s.rv++
		q := &mQuota{Name: op.Q, Parent: extension.RootQuotaName, Lent: true, Max: op.Max, Min: rl{}, rv: s.rv}
		old := s.builtin[op.Q]
		s.builtin[op.Q] = q
		if old == nil {
			return []qEvent{{"add", "quota", nil, q.obj()}}, true
		}
		return []qEvent{{"update", "quota", old.obj(), q.obj()}}, true
	case "quota_create":
		if s.quotas[op.Q] != nil || op.Q == "" {
			return nil, false
		}
		q := &mQuota{Name: op.Q, Parent: op.Parent, IsPar: op.IsPar, Lent: op.Lent, Min: op.Min, Max: op.Max, W: op.W}
		if !s.admissible(q) {
			return nil, false
		}
		early := s.podsIn(op.Q) > 0 // pods created before their quota: they move in from the default quota
		if early && op.IsPar {
			return nil, false // pods live in leaf quotas
		}
		s.rv++
		q.rv = s.rv
		s.quotas[q.Name] = q
		if early {
			// their usage never went through admission against this quota (C03's "used within max" is about admitted pods)
			s.suspendChain(q.Name)
		}
		return []qEvent{{"add", "quota", nil, q.obj()}}, true
	case "quota_update":
		old := s.quotas[op.Q]
		if old == nil {
			return nil, false
		}
		q := *old
		q.Min, q.Max, q.W, q.Lent = op.Min, op.Max, op.W, op.Lent
		if op.IsPar != old.IsPar {
			// is-parent may only flip when the quota has neither children nor pods
			if len(s.children(op.Q)) > 0 || s.podsIn(op.Q) > 0 {
				return nil, false
			}
			q.IsPar = op.IsPar
		}
		if !s.admissible(&q) {
			return nil, false
		}
		for _, d := range qDims {
			if q.Max[d] < old.Max[d] {
				q.maxLowered = true
			}
		}
		s.rv++
		q.rv = s.rv
		s.quotas[q.Name] = &q
		return []qEvent{{"update", "quota", old.obj(), q.obj()}}, true
	case "quota_reparent":
		old := s.quotas[op.Q]
		if old == nil || op.Parent == old.Parent || op.Parent == op.Q {
			return nil, false
		}
		q := *old
		q.Parent = op.Parent
		if !s.admissible(&q) {
			return nil, false
		}
		s.suspendChain(op.Parent)
		s.rv++
		q.rv = s.rv
		s.quotas[q.Name] = &q
		return []qEvent{{"update", "quota", old.obj(), q.obj()}}, true
	case "quota_delete":
		old := s.quotas[op.Q]
		if old == nil || len(s.children(op.Q)) > 0 || s.podsIn(op.Q) > 0 {
			return nil, false
		}
		delete(s.quotas, op.Q)
		return []qEvent{{"delete", "quota", old.obj(), nil}}, true
	case "pod_create":
		if s.pods[op.P] != nil || op.P == "" {
			return nil, false
		}
		if q := s.quotas[op.Q]; q == nil || q.IsPar {
			// pods live in leaf quotas (or the default quota when the label names no quota: op.Q=="none")
			if op.Q != "none" && !(op.Early && q == nil) {
				return nil, false
			}
		}
		s.rv++
		p := &mPod{Name: op.P, Quota: op.Q, Req: op.Req, NonPre: op.NonPre, rv: s.rv, uid: "uid-" + op.P}
		s.pods[p.Name] = p
		return []qEvent{{"add", "pod", nil, p.obj()}}, true
	case "pod_resize":
		old := s.pods[op.P]
		if old == nil {
			return nil, false
		}
		p := *old
		p.Req = op.Req
		s.suspendChain(old.Quota)
		s.rv++
		p.rv = s.rv
		s.pods[p.Name] = &p
		return []qEvent{{"update", "pod", old.obj(), p.obj()}}, true
	case "pod_relabel":
		old := s.pods[op.P]
		if old == nil || old.Quota == op.Q {
			return nil, false
		}
		if q := s.quotas[op.Q]; q == nil || q.IsPar {
			return nil, false
		}
		p := *old
		p.Quota = op.Q
		s.suspendChain(op.Q)
		s.rv++
		p.rv = s.rv
		s.pods[p.Name] = &p
		return []qEvent{{"update", "pod", old.obj(), p.obj()}}, true
	case "pod_bind_external": // a pod bound by someone else (fail-over add / another scheduler)
		old := s.pods[op.P]
		if old == nil || old.Node != "" {
			return nil, false
		}
		p := *old
		p.Node = "node-x"
		s.suspendChain(old.Quota)
		s.rv++
		p.rv = s.rv
		s.pods[p.Name] = &p
		return []qEvent{{"update", "pod", old.obj(), p.obj()}}, true
	case "pod_delete":
		old := s.pods[op.P]
		if old == nil {
			return nil, false
		}
		delete(s.pods, op.P)
		return []qEvent{{"delete", "pod", old.obj(), nil}}, true
	case "node_add":
		if s.nodes[op.N] != nil {
			return nil, false
		}
		s.rv++
		n := &mNode{Name: op.N, Alloc: op.Req, rv: s.rv}
		s.nodes[n.Name] = n
		return []qEvent{{"add", "node", nil, n.obj()}}, true
	case "node_update":
		old := s.nodes[op.N]
		if old == nil {
			return nil, false
		}
		n := *old
		n.Alloc = op.Req
		s.rv++
		n.rv = s.rv
		s.nodes[n.Name] = &n
		return []qEvent{{"update", "node", old.obj(), n.obj()}}, true
	case "node_delete":
		old := s.nodes[op.N]
		if old == nil || len(s.nodes) <= 1 {
			// the cluster keeps at least one node (an empty cluster total differs between "never had a node"
			// and "lost its last node" only in explicit zero entries; nothing can be scheduled either way)
			return nil, false
		}
		delete(s.nodes, op.N)
		return []qEvent{{"delete", "node", old.obj(), nil}}, true
	}
	return nil, false
}

func toRL(m rl) corev1.ResourceList {
	out := corev1.ResourceList{}
	for k, v := range m {
		switch k {
		case "cpu":
			out[corev1.ResourceCPU] = *resource.NewMilliQuantity(v, resource.DecimalSI)
		case "memory":
			out[corev1.ResourceMemory] = *resource.NewQuantity(v, resource.BinarySI)
		default:
			out[corev1.ResourceName(k)] = *resource.NewQuantity(v, resource.DecimalSI)
		}
	}
	return out
}

func fromRL(l corev1.ResourceList) rl {
	out := rl{}
	for k, q := range l {
		var v int64
		if k == corev1.ResourceCPU {
			v = q.MilliValue()
		} else {
			v = q.Value()
		}
		if v != 0 {
			out[string(k)] = v
		}
	}
	return out
}

func (q *mQuota) obj() *v1alpha1.ElasticQuota {
	eq := &v1alpha1.ElasticQuota{
		ObjectMeta: metav1.ObjectMeta{Name: q.Name, Namespace: "default", UID: types.UID("q-" + q.Name), ResourceVersion: fmt.Sprint(q.rv),
			Labels: map[string]string{extension.LabelQuotaParent: q.Parent, extension.LabelQuotaIsParent: fmt.Sprint(q.IsPar),
				extension.LabelAllowLentResource: fmt.Sprint(q.Lent)}, Annotations: map[string]string{}},
		Spec: v1alpha1.ElasticQuotaSpec{Min: toRL(q.Min), Max: toRL(q.Max)},
	}
	if q.Parent == extension.RootQuotaName {
		eq.Labels[extension.LabelQuotaParent] = ""
	}
	if len(q.W) > 0 {
		b, _ := json.Marshal(toRL(q.W))
		eq.Annotations[extension.AnnotationSharedWeight] = string(b)
	}
	return eq
}

func (p *mPod) obj() *corev1.Pod {
	pod := &corev1.Pod{
		ObjectMeta: metav1.ObjectMeta{Name: p.Name, Namespace: "default", UID: types.UID(p.uid), ResourceVersion: fmt.Sprint(p.rv),
			Labels: map[string]string{extension.LabelQuotaName: p.Quota}},
		Spec:   corev1.PodSpec{NodeName: p.Node, Containers: []corev1.Container{{Name: "c", Resources: corev1.ResourceRequirements{Requests: toRL(p.Req)}}}},
		Status: corev1.PodStatus{Phase: corev1.PodPending},
	}
	if p.Node != "" {
		pod.Status.Phase = corev1.PodRunning
	}
	if p.NonPre {
		pod.Labels[extension.LabelPreemptible] = "false"
	}
	return pod
}

func (n *mNode) obj() *corev1.Node {
	return &corev1.Node{ObjectMeta: metav1.ObjectMeta{Name: n.Name, ResourceVersion: fmt.Sprint(n.rv)},
		Status: corev1.NodeStatus{Allocatable: toRL(n.Alloc), Capacity: toRL(n.Alloc)}}
}

// ---------------------------------------------------------------- generation

func genRL(g *sim.Rng, big bool, lo, hi int64) rl {
	out := rl{}
	out["cpu"] = lo + g.I64n(hi-lo+1)
	m := int64(1) << uint(20+g.Intn(14))
	if big {
		m = int64(1) << uint(40+g.Intn(20))
	}
	out["memory"] = m/2 + g.I64n(m)
	return out
}

func (quotaEngine) Generate(p *sim.Plan, g *sim.Rng) {
	cfg := qCfg{Runtime: g.Bool(0.6), CheckParent: g.Bool(0.5), ScaleMin: g.Bool(0.3), Readers: g.Intn(3), Migrator: g.Bool(0.5), Serial: g.Bool(0.25)}
	if p.Prop == "C02" {
		cfg.Runtime = true
	}
	cfg.Guarantee = g.Bool(0.2)
	cfg.QuotaFirst = g.Bool(0.4)
	if p.Prop == "C19" {
		cfg.QuotaFirst = false
		switch g.Intn(4) {
		case 0: // prompt delivery
			cfg.WDel, cfg.WOp, cfg.WBind = 12, 1, 4
		case 1: // informers lag
			cfg.WDel, cfg.WOp, cfg.WBind = 1, 4, 3
		case 2: // binding is slow
			cfg.WDel, cfg.WOp, cfg.WBind = 6, 6, 1
		default:
			cfg.WDel, cfg.WOp, cfg.WBind = 3, 3, 3
		}
	}
	big := g.Bool(0.2)
	nOps := g.Range(8, 45)
	if p.Tier == "thorough" {
		nOps = g.Range(8, 90)
	}
	st := newQStore()
	var ops []qOp
	add := func(op qOp) bool {
		if op.K == "schedule" {
			ops = append(ops, op)
			return true
		}
		if _, ok := st.apply(&op); ok {
			ops = append(ops, op)
			return true
		}
		return false
	}
	// admission-focused plans: a small family of quotas, pods sized around the quotas' own min/max and the parent's
	// remaining room, mostly strict (serial) scheduling attempts
	admP := 0.15
	if p.Prop == "C03" {
		admP = 0.4
	}
	if g.Bool(admP) {
		genAdmissionPlan(p, g, cfg, nOps)
		return
	}
	// capacity first (so that runtime has something to divide)
	nNodes := g.Range(1, 3)
	tight := g.Bool(0.15) // a cluster smaller than the sum of minimums: zero and scaled runtimes
	for i := 0; i < nNodes; i++ {
		a := genRL(g, big, 8000, 64000)
		a["memory"] *= 8
		if tight {
			a["cpu"] /= 8
			a["memory"] /= 64
		}
		add(qOp{K: "node_add", N: fmt.Sprintf("n%d", i), Req: a})
	}
	qNames := []string{}
	pNames := []string{}
	nq, np := 0, 0
	pickQuota := func(leaf bool) string {
		var c []string
		for _, n := range qNames {
			if q := st.quotas[n]; q != nil && q.IsPar != leaf {
				c = append(c, n)
			}
		}
		if len(c) == 0 {
			return ""
		}
		return c[g.Intn(len(c))]
	}
	genQuota := func(name, parent string, isPar bool) qOp {
		// max generous, min a fraction of the parent's min (so that the admission constraint is often satisfiable)
		max := genRL(g, big, 2000, 40000)
		min := rl{}
		var pmin rl
		if pq := st.quotas[parent]; pq != nil {
			pmin = pq.Min
		}
		for _, d := range qDims {
			base := max[d]
			if pmin != nil && pmin[d] < base {
				base = pmin[d]
			}
			switch g.Intn(4) {
			case 0:
				min[d] = 0
			case 1:
				min[d] = base / int64(2+g.Intn(4))
			case 2:
				min[d] = base / 2
			default:
				min[d] = g.I64n(base + 1)
			}
		}
		op := qOp{K: "quota_create", Q: name, Parent: parent, IsPar: isPar, Lent: g.Bool(0.7), Min: min, Max: max}
		if g.Bool(0.4) {
			op.W = rl{"cpu": g.I64n(5) * 1000, "memory": g.I64n(5) * (1 << 30)}
			if g.Bool(0.5) {
				op.W = rl{"cpu": 1 + g.I64n(20000), "memory": 1 + g.I64n(1<<34)}
			}
		}
		return op
	}
	for len(ops) < nOps {
		if p.Prop == "C19" && g.Bool(0.03) {
			// an administrator stores / changes the object of a built-in quota (lowering its max)
			name := extension.DefaultQuotaName
			if g.Bool(0.25) {
				name = extension.SystemQuotaName
			}
			add(qOp{K: "builtin_quota_set", Q: name, Max: genRL(g, big, 2000, 40000)})
			continue
		}
		x := g.Intn(100)
		switch {
		case x < 14 || len(qNames) < 2:
			parent := extension.RootQuotaName
			if g.Bool(0.6) {
				if c := pickQuota(false); c != "" {
					parent = c
				}
			}
			name := fmt.Sprintf("q%d", nq)
			nq++
			if add(genQuota(name, parent, g.Bool(0.35))) {
				qNames = append(qNames, name)
			}
		case x < 24:
			if len(qNames) == 0 {
				continue
			}
			q := st.quotas[qNames[g.Intn(len(qNames))]]
			if q == nil {
				continue
			}
			op := genQuota(q.Name, q.Parent, q.IsPar)
			op.K = "quota_update"
			switch g.Intn(5) {
			case 0: // only max
				op.Min, op.W, op.Lent = q.Min, q.W, q.Lent
			case 1: // only min
				op.Max, op.W, op.Lent = q.Max, q.W, q.Lent
			case 2: // only weight
				op.Max, op.Min, op.Lent = q.Max, q.Min, q.Lent
			case 3: // flip lent / is-parent
				op.Max, op.Min, op.W = q.Max, q.Min, q.W
				op.Lent = !q.Lent
				if g.Bool(0.3) {
					op.IsPar = !q.IsPar
				}
			}
			add(op)
		case x < 30:
			if len(qNames) < 2 {
				continue
			}
			q := qNames[g.Intn(len(qNames))]
			parent := extension.RootQuotaName
			if g.Bool(0.7) {
				if c := pickQuota(false); c != "" {
					parent = c
				}
			}
			add(qOp{K: "quota_reparent", Q: q, Parent: parent})
		case x < 34:
			if len(qNames) == 0 {
				continue
			}
			add(qOp{K: "quota_delete", Q: qNames[g.Intn(len(qNames))]})
		case x < 54:
			q := pickQuota(true)
			if q == "" || g.Bool(0.05) {
				q = "none"
			}
			early := false
			if g.Bool(0.06) {
				// the pod is created before its quota (the next quota name the generator will use)
				q, early = fmt.Sprintf("q%d", nq), true
			}
			name := fmt.Sprintf("p%d", np)
			np++
			req := genRL(g, big, 100, 6000)
			if big {
				req["memory"] /= 16
			}
			if g.Bool(0.15) {
				req["example.com/gpu"] = 1 + g.I64n(4) // a dimension no quota declares: must be masked away
			}
			if g.Bool(0.1) {
				delete(req, "memory")
			}
			if add(qOp{K: "pod_create", P: name, Q: q, Req: req, NonPre: g.Bool(0.2), Early: early}) {
				pNames = append(pNames, name)
			}
		case x < 74:
			if len(pNames) == 0 {
				continue
			}
			add(qOp{K: "schedule", P: pNames[g.Intn(len(pNames))], Fail: g.Bool(0.25), Serial: g.Bool(0.5)})
		case x < 79:
			if len(pNames) == 0 {
				continue
			}
			req := genRL(g, big, 100, 6000)
			add(qOp{K: "pod_resize", P: pNames[g.Intn(len(pNames))], Req: req})
		case x < 84:
			if len(pNames) == 0 {
				continue
			}
			if q := pickQuota(true); q != "" {
				add(qOp{K: "pod_relabel", P: pNames[g.Intn(len(pNames))], Q: q})
			}
		case x < 87:
			if len(pNames) == 0 {
				continue
			}
			add(qOp{K: "pod_bind_external", P: pNames[g.Intn(len(pNames))]})
		case x < 95:
			if len(pNames) == 0 {
				continue
			}
			add(qOp{K: "pod_delete", P: pNames[g.Intn(len(pNames))]})
		case x < 97:
			n := fmt.Sprintf("n%d", g.Intn(4))
			a := genRL(g, big, 8000, 64000)
			a["memory"] *= 8
			if st.nodes[n] == nil {
				add(qOp{K: "node_add", N: n, Req: a})
			} else if g.Bool(0.5) {
				add(qOp{K: "node_update", N: n, Req: a})
			} else {
				add(qOp{K: "node_delete", N: n})
			}
		default:
			ops = append(ops, qOp{K: "barrier", Barr: true})
		}
		if cfg.Serial || g.Bool(0.12) {
			if len(ops) > 0 && !ops[len(ops)-1].Barr {
				ops = append(ops, qOp{K: "barrier", Barr: true})
			}
		}
	}
	p.SetCfg(cfg)
	p.SetOps(ops)
}

func genAdmissionPlan(p *sim.Plan, g *sim.Rng, cfg qCfg, nOps int) {
	cfg.Serial = false
	cfg.Guarantee = false
	st := newQStore()
	var ops []qOp
	add := func(op qOp) bool {
		if op.K == "schedule" || op.K == "barrier" {
			ops = append(ops, op)
			return true
		}
		if _, ok := st.apply(&op); ok {
			ops = append(ops, op)
			return true
		}
		return false
	}
	unit := int64(1000)
	mem := int64(1) << uint(24+g.Intn(8))
	total := rl{"cpu": unit * int64(g.Range(4, 40)), "memory": mem * int64(g.Range(4, 40))}
	add(qOp{K: "node_add", N: "n0", Req: total})
	frac := func(of rl, num, den int64) rl {
		return rl{"cpu": of["cpu"] * num / den, "memory": of["memory"] * num / den}
	}
	// one parent with 2-3 leaves, optionally one more leaf at the root
	pmax := frac(total, int64(g.Range(2, 12)), 10)
	pmin := frac(pmax, int64(g.Range(0, 10)), 10)
	add(qOp{K: "quota_create", Q: "par", Parent: extension.RootQuotaName, IsPar: true, Lent: g.Bool(0.6), Min: pmin, Max: pmax})
	leaves := []string{}
	nl := g.Range(2, 3)
	for i := 0; i < nl; i++ {
		max := frac(pmax, int64(g.Range(3, 15)), 10)
		min := frac(pmin, int64(g.Range(0, 10)), int64(10*nl))
		for _, d := range qDims {
			if min[d] > max[d] {
				min[d] = max[d]
			}
		}
		name := fmt.Sprintf("leaf%d", i)
		if add(qOp{K: "quota_create", Q: name, Parent: "par", Lent: g.Bool(0.6), Min: min, Max: max}) {
			leaves = append(leaves, name)
		}
	}
	if g.Bool(0.5) {
		max := frac(total, int64(g.Range(2, 12)), 10)
		if add(qOp{K: "quota_create", Q: "solo", Parent: extension.RootQuotaName, Lent: g.Bool(0.5), Min: frac(max, int64(g.Range(0, 10)), 10), Max: max}) {
			leaves = append(leaves, "solo")
		}
	}
	add(qOp{K: "barrier", Barr: true})
	np := 0
	var pods []string
	for len(ops) < nOps+6 && len(leaves) > 0 {
		x := g.Intn(100)
		switch {
		case x < 45:
			q := st.quotas[leaves[g.Intn(len(leaves))]]
			if q == nil {
				continue
			}
			// request: a fraction of the quota's max, of its min, or of the parent's max — so that sums land on both sides of the limits
			base := q.Max
			switch g.Intn(4) {
			case 0:
				base = q.Min
			case 1:
				if pq := st.quotas[q.Parent]; pq != nil {
					base = pq.Max
				}
			}
			req := frac(base, int64(g.Range(1, 7)), 10)
			if g.Bool(0.3) {
				req["cpu"] += g.I64n(3) - 1
				if req["cpu"] < 0 {
					req["cpu"] = 0
				}
			}
			name := fmt.Sprintf("p%d", np)
			np++
			if add(qOp{K: "pod_create", P: name, Q: q.Name, Req: req, NonPre: g.Bool(0.4)}) {
				pods = append(pods, name)
				add(qOp{K: "schedule", P: name, Fail: g.Bool(0.15), Serial: g.Bool(0.85)})
			}
		case x < 60:
			if len(pods) > 0 {
				add(qOp{K: "schedule", P: pods[g.Intn(len(pods))], Fail: g.Bool(0.15), Serial: g.Bool(0.85)})
			}
		case x < 72:
			if len(pods) > 0 {
				add(qOp{K: "pod_delete", P: pods[g.Intn(len(pods))]})
			}
		case x < 82:
			names := append([]string{"par"}, leaves...)
			q := st.quotas[names[g.Intn(len(names))]]
			if q == nil {
				continue
			}
			op := qOp{K: "quota_update", Q: q.Name, Parent: q.Parent, IsPar: q.IsPar, Lent: q.Lent, Min: q.Min, Max: q.Max, W: q.W}
			if g.Bool(0.5) {
				op.Max = frac(q.Max, int64(g.Range(8, 16)), 10)
			} else {
				op.Min = frac(q.Min, int64(g.Range(5, 15)), 10)
			}
			add(op)
		case x < 88:
			add(qOp{K: "node_update", N: "n0", Req: frac(total, int64(g.Range(5, 15)), 10)})
		default:
			add(qOp{K: "barrier", Barr: true})
		}
	}
	p.SetCfg(cfg)
	p.SetOps(ops)
}

// ---------------------------------------------------------------- execution

type qSim struct {
	r      *sim.Run
	cfg    qCfg
	st     *qStore
	pl     *Plugin
	queues map[string][]qEvent // per informer stream
	busy   map[string]bool
	// what the pod informer delivered last (the scheduler's view of a pod)
	delivered                 map[string]*corev1.Pod
	processed                 map[string]*corev1.Pod
	schedQ                    []qOp
	bindQ                     []func()
	quotaAdding               string
	migratorSeq               int             // migrate passes started so far
	quotaDeleting             string          // name of the quota whose OnQuotaDelete is in progress
	podEvQuotas               map[string]int  // quota label -> pod events / cycle steps of its pods in progress
	rebuildSeq, rebuildActive int             // deliveries of tree-rebuilding quota updates: +1 at start and at end / currently in progress
	admittedUnknown           map[string]bool // quota label -> a pod carrying it was admitted while the plugin did not know that quota
	knownQuotas               map[string]bool // quotas whose add has been handled completely (they define the manager's resource dimensions)
	inFlight                  map[string]bool
	foreign, everScheduled    map[string]bool
	apiDone                   bool
	attempts                  int
	c19Echo                   map[any]bool // C19 mode: new-object pointers of the pod updates that echo a bind of this scheduler
	c19StaleEcho              map[any]bool
}

func newPlugin(cfg qCfg) *Plugin {
	args := &config.ElasticQuotaArgs{
		DefaultQuotaGroupMax:   toRL(rl{"cpu": 1 << 40, "memory": 1 << 60}),
		SystemQuotaGroupMax:    toRL(rl{"cpu": 1 << 40, "memory": 1 << 60}),
		QuotaGroupNamespace:    "koordinator-system",
		EnableCheckParentQuota: cfg.CheckParent,
		EnableRuntimeQuota:     cfg.Runtime,
		EnableMinQuotaScale:    cfg.ScaleMin,
	}
	pl := &Plugin{
		pluginArgs:                     args,
		groupQuotaManagersForQuotaTree: make(map[string]*core.GroupQuotaManager),
		quotaToTreeMap:                 make(map[string]string),
		quotaSnapshot:                  make(map[string]*core.QuotaSnapshot),
		quotaToTreeMapSnapshot:         make(map[string]string),
	}
	pl.groupQuotaManager = core.NewGroupQuotaManager("", args.EnableMinQuotaScale, args.SystemQuotaGroupMax, args.DefaultQuotaGroupMax)
	if err := pl.groupQuotaManager.InitHookPlugins(args); err != nil {
		panic(err)
	}
	pl.quotaToTreeMap[extension.DefaultQuotaName] = ""
	pl.quotaToTreeMap[extension.SystemQuotaName] = ""
	return pl
}

// ---- history classes of recorded findings (known_findings.jsonl) ----

func (s *qSim) parkedInDefault(pod *corev1.Pod) bool {
	if pod == nil || pod.Labels[extension.LabelQuotaName] == "none" {
		return false
	}
	d := s.pl.groupQuotaManager.GetQuotaInfoByName(extension.DefaultQuotaName)
	return d != nil && d.IsPodExist(pod)
}

func (s *qSim) quotaKnown(pod *corev1.Pod) bool {
	s.pl.quotaToTreeMapLock.RLock()
	defer s.pl.quotaToTreeMapLock.RUnlock()
	_, ok := s.pl.quotaToTreeMap[pod.Labels[extension.LabelQuotaName]]
	return ok
}

// aroundPodEvent classifies the history around one pod event / scheduling step:
// a pod cached in the default quota (its own quota was unknown when it was added)
// that receives an event once its quota is known, before the periodic migration
// moved it, hits the recorded defect family "parked-pod-event".
// staleCycleObject: the scheduling cycle is about to use (Reserve/Unreserve) a copy of the pod whose requests or
// quota label differ from the version the informer has already delivered to the plugin.
func (s *qSim) staleCycleObject(pod *corev1.Pod) {
	// processed = the version whose event the plugin's own handler has finished handling; the scheduling queue is fed by
	// another listener of the same informer and may be ahead of or behind it
	cur := s.processed[pod.Name]
	if cur == nil {
		return
	}
	if !eqRL(fromRL(core.PodRequests(cur)), fromRL(core.PodRequests(pod))) || cur.Labels[extension.LabelQuotaName] != pod.Labels[extension.LabelQuotaName] {
		s.r.Tag("stale-pod-object")
	}
}

// usedBeforeKeys: with ElasticQuotaGuaranteeUsage on, `allocated` only follows `used` in the dimensions some quota's max
// has declared so far (gqm.resourceKeys); usage that arrives while no quota exists yet is never added to `allocated`.
func (s *qSim) usedBeforeKeys(pod *corev1.Pod) {
	if s.cfg.Guarantee && len(s.knownQuotas) == 0 && pod != nil {
		s.r.Tag("guarantee-gate-used-before-any-quota")
	}
}

func (s *qSim) aroundPodEvent(pod *corev1.Pod, fn func()) {
	parked := s.parkedInDefault(pod)
	if parked && s.busy["migrator"] {
		// migrateDefaultQuotaGroupsPod works on a snapshot of the default quota's pods; MigratePod does not
		// re-check that the pod is still there
		s.r.Tag("pod-event-during-migration")
	}
	passesBefore := s.migratorSeq
	lab := pod.Labels[extension.LabelQuotaName]
	if lab != "" {
		if lab == s.quotaDeleting {
			s.r.Tag("pod-event-overlaps-own-quota-delete")
		}
		s.podEvQuotas[lab]++
	}
	fn()
	if lab != "" {
		s.podEvQuotas[lab]--
		if lab == s.quotaDeleting {
			s.r.Tag("pod-event-overlaps-own-quota-delete")
		}
	}
	if parked && (s.busy["migrator"] || s.migratorSeq != passesBefore) {
		// (both sides of the call: a migrate pass that STARTS while this event is parked inside its handler snapshots
		// the default quota's pods with this pod still in it)
		s.r.Tag("pod-event-during-migration")
	}
	if parked && s.quotaKnown(pod) {
		s.r.Tag("parked-pod-event")
	}
}

func (s *qSim) deliver(ev qEvent) {
	// history class of a recorded finding: a pod event is handled while OnQuotaDelete of the pod's own quota is in progress
	// (the handler resolved the quota name before the delete, the delete moved the pod to the default quota, the handler
	// then finds no such quota and drops the event)
	var labs []string
	if ev.typ == "pod" {
		for _, o := range []any{ev.old, ev.new} {
			if p, ok := o.(*corev1.Pod); ok && p != nil && p.Labels[extension.LabelQuotaName] != "" {
				labs = append(labs, p.Labels[extension.LabelQuotaName])
			}
		}
		for _, l := range labs {
			if l == s.quotaDeleting {
				s.r.Tag("pod-event-overlaps-own-quota-delete")
			}
			s.podEvQuotas[l]++
		}
	}
	switch ev.typ {
	case "quota":
		switch ev.kind {
		case "add":
			s.quotaAdding = ev.new.(*v1alpha1.ElasticQuota).Name
			if s.admittedUnknown[s.quotaAdding] {
				s.r.Tag("admitted-while-own-quota-unknown")
			}
			s.pl.OnQuotaAdd(ev.new)
			s.quotaAdding = ""
			s.knownQuotas[ev.new.(*v1alpha1.ElasticQuota).Name] = true
		case "update":
			oq, nq := ev.old.(*v1alpha1.ElasticQuota), ev.new.(*v1alpha1.ElasticQuota)
			// an update that changes the quota's place or kind in the tree (parent, is-parent, allow-lent) rebuilds the tree;
			// the rebuild clears every quota's runtime in place
			rebuilds := oq.Labels[extension.LabelQuotaParent] != nq.Labels[extension.LabelQuotaParent] ||
				oq.Labels[extension.LabelQuotaIsParent] != nq.Labels[extension.LabelQuotaIsParent] ||
				oq.Labels[extension.LabelAllowLentResource] != nq.Labels[extension.LabelAllowLentResource]
			if rebuilds {
				s.rebuildSeq++
				s.rebuildActive++
			}
			s.pl.OnQuotaUpdate(ev.old, ev.new)
			if rebuilds {
				s.rebuildSeq++
				s.rebuildActive--
			}
		case "delete":
			dn := ev.old.(*v1alpha1.ElasticQuota).Name
			if s.podEvQuotas[dn] > 0 {
				s.r.Tag("pod-event-overlaps-own-quota-delete")
			}
			s.quotaDeleting = dn
			s.pl.OnQuotaDelete(ev.old)
			s.quotaDeleting = ""
			if s.podEvQuotas[dn] > 0 {
				s.r.Tag("pod-event-overlaps-own-quota-delete")
			}
			delete(s.knownQuotas, ev.old.(*v1alpha1.ElasticQuota).Name)
			if s.cfg.Guarantee && len(s.knownQuotas) == 0 && len(s.st.pods) > 0 {
				// the last quota is gone: the manager's resource dimensions become empty while pods still hold usage
				s.r.Tag("guarantee-gate-used-before-any-quota")
			}
		}
	case "pod":
		switch ev.kind {
		case "add":
			np := ev.new.(*corev1.Pod)
			s.delivered[np.Name] = np
			// the add of a pod overlapping the add of its own quota (tree map already updated, quotaInfoMap not yet)
			overlap := s.quotaAdding != "" && s.quotaAdding == np.Labels[extension.LabelQuotaName]
			if np.Spec.NodeName != "" {
				s.usedBeforeKeys(np)
			}
			s.pl.OnPodAdd(ev.new)
			s.processed[np.Name] = np // no scheduling point between the handler's return and this line
			if overlap || (s.quotaAdding != "" && s.quotaAdding == np.Labels[extension.LabelQuotaName]) {
				s.r.Tag("pod-add-overlaps-own-quota-add")
			}
		case "update":
			np, op := ev.new.(*corev1.Pod), ev.old.(*corev1.Pod)
			s.delivered[np.Name] = np
			if s.quotaAdding != "" && s.quotaAdding == np.Labels[extension.LabelQuotaName] {
				s.r.Tag("pod-add-overlaps-own-quota-add")
			}
			changed := !eqRL(fromRL(core.PodRequests(op)), fromRL(core.PodRequests(np))) || op.Labels[extension.LabelQuotaName] != np.Labels[extension.LabelQuotaName]
			inDefault := false
			if d := s.pl.groupQuotaManager.GetQuotaInfoByName(extension.DefaultQuotaName); d != nil {
				inDefault = d.IsPodExist(op)
			}
			if inDefault && changed {
				// a pod's requests change while an older copy of the pod object is still held by the default-quota
				// pod cache (used later by MigratePod) or by the scheduling cycle (used later by Unreserve)
				s.r.Tag("stale-pod-object")
			}
			if pp := s.processed[np.Name]; changed && s.inFlight[np.Name] && (pp == nil || pp.Spec.NodeName == "") {
				// the same class, reached the other way round: the change is handled while a scheduling cycle that started
				// from an older copy holds the pod reserved (its bind has not been seen yet): OnPodUpdate moves the pod
				// without its reservation
				s.r.Tag("stale-pod-object")
			}
			if np.Spec.NodeName != "" {
				s.usedBeforeKeys(np)
			}
			s.aroundPodEvent(op, func() { s.pl.OnPodUpdate(ev.old, ev.new); s.processed[np.Name] = np })
			if s.quotaAdding != "" && s.quotaAdding == np.Labels[extension.LabelQuotaName] {
				s.r.Tag("pod-add-overlaps-own-quota-add")
			}
		case "delete":
			op := ev.old.(*corev1.Pod)
			delete(s.delivered, op.Name)
			s.aroundPodEvent(op, func() { s.pl.OnPodDelete(ev.old); delete(s.processed, op.Name) })
		}
	case "node":
		switch ev.kind {
		case "add":
			s.pl.OnNodeAdd(ev.new)
		case "update":
			s.pl.OnNodeUpdate(ev.old, ev.new)
		case "delete":
			s.pl.OnNodeDelete(ev.old)
		}
	}
	for _, l := range labs { // (explicit, not deferred: deferred harness code would run while aborted actors unwind side by side)
		s.podEvQuotas[l]--
		if l == s.quotaDeleting {
			s.r.Tag("pod-event-overlaps-own-quota-delete")
		}
	}
	s.r.Event("deliver %s %s", ev.typ, ev.kind)
}

func (s *qSim) emit(evs []qEvent) {
	for _, ev := range evs {
		s.queues[ev.typ] = append(s.queues[ev.typ], ev)
	}
}

func (s *qSim) idle() bool {
	for _, q := range s.queues {
		if len(q) > 0 {
			return false
		}
	}
	for k, b := range s.busy {
		if b && k != "migrator" {
			return false
		}
	}
	return len(s.schedQ) == 0 && len(s.bindQ) == 0
}

func (s *qSim) quotaInformerIdle() bool { return len(s.queues["quota"]) == 0 && !s.busy["quota"] }

// cycle runs one scheduling attempt for the pod as the scheduler sees it.
func (s *qSim) cycle(op qOp, strict bool) {
	pod := s.delivered[op.P]
	// the scheduling queue never hands out a pod that is bound, or assumed and still binding
	if pod == nil || pod.Spec.NodeName != "" || s.inFlight[op.P] {
		s.r.OpSkipped()
		return
	}
	s.inFlight[op.P] = true
	s.attempts++
	var pre *verdictInputs
	if strict && s.busy["migrator"] {
		// the (one) migrate goroutine is in the middle of a pass: the plugin's picture of parked pods is in flux, the strict
		// verdict oracle does not apply to this attempt
		strict = false
		s.r.Probe("strict-verdict-skipped:migration-pass-in-progress")
	}
	if strict {
		// nothing else runs: let the 1s migrate ticker fire first, so that pods parked in the default quota whose quota has
		// arrived meanwhile are where the reference model (which looks at the store) has them
		s.busy["migrator"] = true
		s.migratorSeq++
		s.pl.migrateDefaultQuotaGroupsPod()
		s.busy["migrator"] = false
		if s.cfg.Runtime {
			// the runtime quotas converge lazily (a refresh rescales the mins on its own path only): bring them to the value
			// every quota would see at its next PreFilter, so that the limit the attempt meets and the limit the oracle reads
			// afterwards are the same number
			refreshAll(s.pl)
		}
		pre = s.modelVerdictInputs(pod)
	}
	var status *fwktype.Status
	labelled := pod.Labels[extension.LabelQuotaName] != ""
	unknownBefore := labelled && !s.quotaKnown(pod)
	rebuildsBefore, rebuildingBefore := s.rebuildSeq, s.rebuildActive > 0
	s.aroundPodEvent(pod, func() { _, status = s.pl.PreFilter(context.TODO(), framework.NewCycleState(), pod, nil) })
	if s.cfg.Runtime && status.IsSuccess() && (rebuildingBefore || s.rebuildSeq != rebuildsBefore) {
		// history class of a recorded finding (known_findings.jsonl): a tree rebuild was handled while this PreFilter was
		// in flight. PreFilter refreshes the runtime, then reads used and, separately, the runtime of the quota; the rebuild
		// clears the runtime of every quota in place, so the limit read after it is empty and the pod is admitted
		// against no limit at all
		s.r.Tag("prefilter-overlaps-tree-rebuild")
	}
	if status.IsSuccess() && labelled && (unknownBefore || !s.quotaKnown(pod)) {
		// history class of a recorded finding (known_findings.jsonl): the pod is admitted while the plugin does not know the
		// pod's own quota (the quota informer lags the scheduling queue, or the quota does not exist yet): the decision is
		// taken against the default quota, and the later migration charges the real quota without any limit check. The
		// class begins when that quota reaches the plugin (see deliver); a label that never names a quota is plain
		// default-quota usage.
		s.admittedUnknown[pod.Labels[extension.LabelQuotaName]] = true
		if s.quotaKnown(pod) {
			s.r.Tag("admitted-while-own-quota-unknown")
		}
	}
	s.r.Event("prefilter %s %v", op.P, status.Code())
	if strict {
		s.checkVerdict(pod, status, pre)
	}
	if !status.IsSuccess() {
		s.inFlight[op.P] = false
		s.r.OpDone()
		return
	}
	var st *fwktype.Status
	s.staleCycleObject(pod)
	s.usedBeforeKeys(pod)
	s.aroundPodEvent(pod, func() { st = s.pl.Reserve(context.TODO(), framework.NewCycleState(), pod, "node-0") })
	s.staleCycleObject(pod) // evaluated on both sides of the call: the plugin may process an update while Reserve waits for the lock
	if !st.IsSuccess() {
		s.r.Fail("reserve", "", "Reserve failed: %v", st.Message())
	}
	bind := func() {
		if op.Fail {
			s.staleCycleObject(pod)
			s.aroundPodEvent(pod, func() { s.pl.Unreserve(context.TODO(), framework.NewCycleState(), pod, "node-0") })
			s.staleCycleObject(pod)
			s.r.Event("unreserve %s", op.P)
			s.inFlight[op.P] = false
			return
		}
		// the bind API call: succeeds only if the pod still exists unbound
		cur := s.st.pods[op.P]
		if cur == nil || cur.Node != "" {
			s.staleCycleObject(pod)
			s.aroundPodEvent(pod, func() { s.pl.Unreserve(context.TODO(), framework.NewCycleState(), pod, "node-0") })
			s.staleCycleObject(pod)
			s.r.Event("bind-conflict-unreserve %s", op.P)
			s.r.Probe("bind-after-delete")
			s.inFlight[op.P] = false
			return
		}
		np := *cur
		np.Node = "node-0"
		s.st.rv++
		np.rv = s.st.rv
		s.st.pods[op.P] = &np
		s.emit([]qEvent{{"update", "pod", cur.obj(), np.obj()}})
		s.r.Event("bound %s", op.P)
	}
	if strict {
		bind()
	} else {
		s.bindQ = append(s.bindQ, bind)
	}
	s.r.OpDone()
}

func (quotaEngine) Execute(r *sim.Run) {
	s := &qSim{r: r, st: newQStore(), queues: map[string][]qEvent{}, busy: map[string]bool{}, delivered: map[string]*corev1.Pod{}, processed: map[string]*corev1.Pod{}, knownQuotas: map[string]bool{}, podEvQuotas: map[string]int{}, admittedUnknown: map[string]bool{}, inFlight: map[string]bool{}, foreign: map[string]bool{}, everScheduled: map[string]bool{}}
	r.Plan.GetCfg(&s.cfg)
	var ops []qOp
	r.Plan.GetOps(&ops)
	// process-global feature gate: runs are sequential within a worker process, restored at the end of the run
	if err := k8sfeature.DefaultMutableFeatureGate.Set(fmt.Sprintf("%s=%v", koordfeatures.ElasticQuotaGuaranteeUsage, s.cfg.Guarantee)); err != nil {
		r.HarnessFail("feature gate: %v", err)
	}
	defer func() {
		_ = k8sfeature.DefaultMutableFeatureGate.Set(fmt.Sprintf("%s=false", koordfeatures.ElasticQuotaGuaranteeUsage))
	}()
	s.pl = newPlugin(s.cfg)
	r.Sample("cfg %+v", s.cfg)
	if r.Prop == "C19" {
		s.executeC19(ops)
		return
	}

	// split into bursts at barriers
	var bursts [][]qOp
	var curB []qOp
	for _, op := range ops {
		if op.K == "barrier" {
			if len(curB) > 0 {
				bursts = append(bursts, curB)
				curB = nil
			}
			continue
		}
		curB = append(curB, op)
	}
	if len(curB) > 0 {
		bursts = append(bursts, curB)
	}
	for bi, burst := range bursts {
		s.apiDone = false
		burst := burst
		r.Spawn("api", func() {
			for _, op := range burst {
				op := op
				r.Yield("api:" + op.K)
				if op.K == "pod_bind_external" && s.everScheduled[op.P] {
					// only pods this scheduler never tried to place are bound by somebody else
					r.OpSkipped()
					continue
				}
				if op.K == "pod_bind_external" {
					s.foreign[op.P] = true
				}
				if op.K == "schedule" {
					if s.foreign[op.P] {
						r.OpSkipped()
						continue
					}
					s.everScheduled[op.P] = true
					if op.Serial {
						// wait until every informer has drained, then run the cycle while nothing else mutates state
						r.WaitUntil("api:serial-wait", s.idle)
						s.cycle(op, true)
					} else {
						s.schedQ = append(s.schedQ, op)
					}
					continue
				}
				var removedChild *mQuota
				if s.cfg.Guarantee && (op.K == "quota_reparent" || op.K == "quota_delete") {
					removedChild = s.st.quotas[op.Q]
				}
				evs, ok := s.st.apply(&op)
				if !ok {
					r.OpSkipped()
					continue
				}
				if removedChild != nil && removedChild.Parent != extension.RootQuotaName {
					// with ElasticQuotaGuaranteeUsage on, the old parent's allocated keeps the removed child's guaranteed amount
					r.Tag("guarantee-gate-child-removed")
				}
				if removedChild != nil && op.K == "quota_reparent" && len(s.st.children(op.Q)) > 0 {
					// with ElasticQuotaGuaranteeUsage on, a re-parented quota that has children loses its own allocated
					// (the sum of its children's guaranteed amounts) until a child's used changes
					r.Tag("guarantee-gate-parent-reparented")
				}
				r.OpDone()
				r.Sample("%s q=%s p=%s n=%s parent=%s", op.K, op.Q, op.P, op.N, op.Parent)
				r.Event("api %s %s%s%s", op.K, op.Q, op.P, op.N)
				s.emit(evs)
			}
			s.apiDone = true
		})
		for _, typ := range []string{"quota", "pod", "node"} {
			typ := typ
			r.Spawn("informer-"+typ, func() {
				for {
					r.WaitUntil("inf-wait:"+typ, func() bool {
						if typ == "pod" && s.cfg.QuotaFirst && !s.quotaInformerIdle() {
							return false
						}
						return len(s.queues[typ]) > 0 || (s.apiDone && len(s.schedQ) == 0 && len(s.bindQ) == 0 && !s.busy["sched"] && !s.busy["binder"])
					})
					if len(s.queues[typ]) == 0 {
						return
					}
					ev := s.queues[typ][0]
					s.queues[typ] = s.queues[typ][1:]
					s.busy[typ] = true
					s.deliver(ev)
					s.busy[typ] = false
				}
			})
		}
		r.Spawn("sched", func() {
			for {
				r.WaitUntil("sched-wait", func() bool {
					if s.cfg.QuotaFirst && !s.quotaInformerIdle() {
						return false
					}
					return len(s.schedQ) > 0 || s.apiDone
				})
				if len(s.schedQ) == 0 {
					return
				}
				op := s.schedQ[0]
				s.schedQ = s.schedQ[1:]
				s.busy["sched"] = true
				s.cycle(op, false)
				s.busy["sched"] = false
			}
		})
		r.Spawn("binder", func() {
			for {
				r.WaitUntil("binder-wait", func() bool { return len(s.bindQ) > 0 || (s.apiDone && len(s.schedQ) == 0 && !s.busy["sched"]) })
				if len(s.bindQ) == 0 {
					return
				}
				f := s.bindQ[0]
				s.bindQ = s.bindQ[1:]
				s.busy["binder"] = true
				f()
				s.busy["binder"] = false
			}
		})
		for i := 0; i < s.cfg.Readers; i++ {
			r.SpawnDaemon(fmt.Sprintf("reader%d", i), func() {
				for k := 0; k < 4; k++ {
					r.Yield("reader")
					sums := s.pl.groupQuotaManager.GetQuotaSummaries(true)
					names := make([]string, 0, len(sums))
					for n := range sums {
						names = append(names, n)
					}
					sort.Strings(names)
					if len(names) > 0 && s.cfg.Runtime {
						s.pl.groupQuotaManager.RefreshRuntime(names[r.Choose(len(names))])
					}
				}
			})
		}
		if s.cfg.Migrator {
			r.SpawnDaemon("migrator", func() {
				for k := 0; k < 3; k++ {
					// (there is ONE migrate goroutine: a pass never overlaps the pass a strict attempt lets fire)
					r.WaitUntil("migrator", func() bool { return !s.busy["migrator"] })
					s.busy["migrator"] = true
					s.migratorSeq++
					s.pl.migrateDefaultQuotaGroupsPod()
					s.busy["migrator"] = false
				}
			})
		}
		r.Drive()
		// quiescent point: the 1s migrate ticker fires, then the oracles look
		r.DrainDaemons()
		s.pl.migrateDefaultQuotaGroupsPod()
		s.checkQuiescent(bi)
	}
}

// ---------------------------------------------------------------- oracles

func (s *qSim) resolveQuota(p *mPod) string {
	if q := s.st.quotas[p.Quota]; q != nil {
		return p.Quota
	}
	return extension.DefaultQuotaName
}

func maskDims(m rl) rl {
	out := rl{}
	for _, d := range qDims {
		if m[d] != 0 {
			out[d] = m[d]
		}
	}
	return out
}

func addRL(a, b rl) rl {
	out := rl{}
	for k, v := range a {
		out[k] = v
	}
	for k, v := range b {
		out[k] += v
		if out[k] == 0 {
			delete(out, k)
		}
	}
	return out
}

func eqRL(a, b rl) bool {
	for k, v := range a {
		if v != b[k] {
			return false
		}
	}
	for k, v := range b {
		if v != a[k] {
			return false
		}
	}
	return true
}

type mAgg struct {
	used, npUsed, selfUsed, childReq, req, npReq, selfReq rl
}

// modelAggregates recomputes, from the surviving API objects only, what the
// statement of C01 says the summaries must be.
func (s *qSim) modelAggregates() map[string]*mAgg {
	out := map[string]*mAgg{}
	get := func(n string) *mAgg {
		if out[n] == nil {
			out[n] = &mAgg{used: rl{}, npUsed: rl{}, selfUsed: rl{}, childReq: rl{}, req: rl{}, npReq: rl{}, selfReq: rl{}}
		}
		return out[n]
	}
	get(extension.DefaultQuotaName)
	get(extension.SystemQuotaName)
	for n := range s.st.quotas {
		get(n)
	}
	parentOf := func(n string) string {
		if q := s.st.quotas[n]; q != nil {
			return q.Parent
		}
		return extension.RootQuotaName
	}
	// pods
	for _, p := range s.st.pods {
		qn := s.resolveQuota(p)
		req := maskDims(p.Req)
		a := get(qn)
		a.selfReq = addRL(a.selfReq, req)
		if p.NonPre {
			for x := qn; x != extension.RootQuotaName; x = parentOf(x) {
				get(x).npReq = addRL(get(x).npReq, req)
			}
		}
		if p.Node != "" {
			a.selfUsed = addRL(a.selfUsed, req)
			for x := qn; x != extension.RootQuotaName; x = parentOf(x) {
				get(x).used = addRL(get(x).used, req)
				if p.NonPre {
					get(x).npUsed = addRL(get(x).npUsed, req)
				}
			}
		}
	}
	// requests bottom-up: children's max-limited requests, raised to min for groups that do not lend
	var visit func(n string) rl
	visit = func(n string) rl {
		a := get(n)
		cr := addRL(rl{}, a.selfReq)
		for _, c := range s.st.children(n) {
			cr = addRL(cr, visit(c))
		}
		a.childReq = cr
		r := addRL(rl{}, cr)
		q := s.st.quotas[n]
		if q != nil && (!q.Lent || s.cfg.Guarantee) {
			for _, d := range qDims {
				if q.Min[d] > r[d] {
					r[d] = q.Min[d]
				}
			}
		}
		a.req = r
		lim := addRL(rl{}, r)
		if q != nil {
			for _, d := range qDims {
				if lim[d] > q.Max[d] {
					lim[d] = q.Max[d]
				}
			}
		}
		return lim
	}
	for _, c := range s.st.children(extension.RootQuotaName) {
		visit(c)
	}
	visit(extension.DefaultQuotaName)
	visit(extension.SystemQuotaName)
	return out
}

func fmtRL(m rl) string {
	ks := make([]string, 0, len(m))
	for k := range m {
		ks = append(ks, k)
	}
	sort.Strings(ks)
	var sb strings.Builder
	for _, k := range ks {
		fmt.Fprintf(&sb, "%s=%d ", k, m[k])
	}
	return "{" + strings.TrimSpace(sb.String()) + "}"
}

func (s *qSim) freshPlugin(order *sim.Rng) *Plugin {
	f := newPlugin(s.cfg)
	// quotas parents first (informer initial list order is arbitrary, but a child before its parent is the
	// "load child before parent" path of ResetQuota; keep the fresh oracle on the plain path)
	var names []string
	var walk func(n string)
	walk = func(n string) {
		cs := s.st.children(n)
		if order != nil {
			perm := order.Perm(len(cs))
			c2 := make([]string, len(cs))
			for i, j := range perm {
				c2[i] = cs[j]
			}
			cs = c2
		}
		for _, c := range cs {
			names = append(names, c)
			walk(c)
		}
	}
	walk(extension.RootQuotaName)
	for _, n := range names {
		f.OnQuotaAdd(s.st.quotas[n].obj())
	}
	var nn []string
	for n := range s.st.nodes {
		nn = append(nn, n)
	}
	sort.Strings(nn)
	for _, n := range nn {
		f.OnNodeAdd(s.st.nodes[n].obj())
	}
	var pn []string
	for n := range s.st.pods {
		pn = append(pn, n)
	}
	sort.Strings(pn)
	if order != nil {
		perm := order.Perm(len(pn))
		p2 := make([]string, len(pn))
		for i, j := range perm {
			p2[i] = pn[j]
		}
		pn = p2
	}
	for _, n := range pn {
		f.OnPodAdd(s.st.pods[n].obj())
	}
	f.migrateDefaultQuotaGroupsPod()
	return f
}

func sortedSummaryNames(m map[string]*core.QuotaInfoSummary) []string {
	names := make([]string, 0, len(m))
	for n := range m {
		names = append(names, n)
	}
	sort.Strings(names)
	return names
}

func refreshAll(pl *Plugin) map[string]*core.QuotaInfoSummary {
	sums := pl.groupQuotaManager.GetQuotaSummaries(true)
	if pl.pluginArgs.EnableRuntimeQuota {
		// RefreshRuntime(q) brings only q's path up to date (and lazily rescales the mins on that path), so the
		// stored runtime of a sibling refreshed earlier can predate it: refresh until nothing changes, which is
		// the value every quota would see at its own next PreFilter.
		prev := ""
		for pass := 0; pass < 6; pass++ {
			for _, n := range sortedSummaryNames(sums) {
				pl.groupQuotaManager.RefreshRuntime(n)
			}
			sums = pl.groupQuotaManager.GetQuotaSummaries(true)
			var sb strings.Builder
			for _, n := range sortedSummaryNames(sums) {
				fmt.Fprintf(&sb, "%s=%s/%s;", n, fmtRL(fromRL(sums[n].Runtime)), fmtRL(fromRL(sums[n].AutoScaleMin)))
			}
			if sb.String() == prev {
				break
			}
			prev = sb.String()
		}
	}
	return sums
}

func (s *qSim) checkQuiescent(burst int) {
	r := s.r
	r.OracleEval()
	live := refreshAll(s.pl)
	names := sortedSummaryNames(live)
	// canonical state into the event log
	for _, n := range names {
		q := live[n]
		r.Event("state %s used=%s req=%s rt=%s pods=%d", n, fmtRL(fromRL(q.Used)), fmtRL(fromRL(q.Request)), fmtRL(fromRL(q.Runtime)), len(q.PodCache))
	}
	if r.Prop == "C01" || r.Prop == "C03" {
		s.checkAccounting(live, names, burst)
	}
	if r.Prop == "C01" || r.Prop == "C02" {
		s.checkDifferential(live, names, burst)
	}
	if r.Prop == "C02" && s.cfg.Runtime {
		s.checkRuntimeSharing(live, burst)
	}
	if r.Prop == "C03" {
		s.checkUsedWithinMax(live, names)
	}
}

// C01 (1)+(2): membership and aggregates versus the independent recomputation.
func (s *qSim) checkAccounting(live map[string]*core.QuotaInfoSummary, names []string, burst int) {
	r := s.r
	model := s.modelAggregates()
	// membership
	where := map[string]string{}
	for _, n := range names {
		for key, pi := range live[n].PodCache {
			if prev, dup := where[key]; dup {
				r.Fail("membership", "pod-in-two-quotas", "pod %s cached in both %s and %s", key, prev, n)
			}
			where[key] = n
			name := key[strings.Index(key, "/")+1:]
			mp := s.st.pods[name]
			if mp == nil {
				r.Fail("membership", "ghost-pod", "quota %s caches pod %s which no longer exists (burst %d)", n, key, burst)
			}
			if want := s.resolveQuota(mp); want != n {
				r.Fail("membership", "wrong-quota", "pod %s cached in %s, its label resolves to %s", key, n, want)
			}
			if pi.IsAssigned != (mp.Node != "") {
				r.Fail("membership", fmt.Sprintf("isAssigned=%v", pi.IsAssigned), "pod %s isAssigned=%v but node=%q", key, pi.IsAssigned, mp.Node)
			}
		}
	}
	for _, mp := range s.st.pods {
		if _, ok := where["default/"+mp.Name]; !ok {
			r.Fail("membership", "lost-pod", "live pod %s (label %s) is in no quota's pod cache (burst %d)", mp.Name, mp.Quota, burst)
		}
	}
	for _, n := range names {
		q, m := live[n], model[n]
		if m == nil {
			if n == extension.DefaultQuotaName || n == extension.SystemQuotaName {
				continue
			}
			r.Fail("membership", "ghost-quota", "quota %s reported but deleted", n)
		}
		chk := func(field string, got corev1.ResourceList, want rl) {
			g := fromRL(got)
			for k, v := range g {
				if v < 0 {
					r.Fail("negative", field, "quota %s %s[%s]=%d", n, field, k, v)
				}
			}
			if !eqRL(g, want) {
				r.Fail("accounting", field, "quota %s: reported %s=%s, recomputed from surviving objects %s (burst %d)", n, field, fmtRL(g), fmtRL(want), burst)
			}
		}
		chk("used", q.Used, m.used)
		chk("nonPreemptibleUsed", q.NonPreemptibleUsed, m.npUsed)
		chk("selfUsed", q.SelfUsed, m.selfUsed)
		if s.r.Prop == "C01" {
			chk("selfRequest", q.SelfRequest, m.selfReq)
			chk("childRequest", q.ChildRequest, m.childReq)
			chk("request", q.Request, m.req)
			chk("nonPreemptibleRequest", q.NonPreemptibleRequest, m.npReq)
		}
	}
	for n := range s.st.quotas {
		if live[n] == nil {
			r.Fail("membership", "lost-quota", "quota %s exists but is not reported", n)
		}
	}
}

// C01 (3) / C02 (f)(g): a fresh manager fed the surviving objects (in several
// orders and under several map-iteration seeds) reports the same figures.
func (s *qSim) checkDifferential(live map[string]*core.QuotaInfoSummary, names []string, burst int) {
	r := s.r
	for k := 0; k < 2; k++ {
		var order *sim.Rng
		if k > 0 {
			order = sim.NewRng(sim.Mix(r.Plan.Seed, uint64(burst*7+k)))
			sim.SetMapSeed(sim.Mix(r.Plan.MapSeed, uint64(k)) | 1)
		}
		fresh := refreshAll(s.freshPlugin(order))
		if k > 0 {
			sim.SetMapSeed(r.Plan.MapSeed | 1)
		}
		for _, n := range names {
			a, b := live[n], fresh[n]
			if b == nil {
				r.Fail("differential", "quota-missing-in-fresh", "quota %s reported live but absent from a fresh manager", n)
			}
			cmp := func(field string, x, y corev1.ResourceList) {
				if !eqRL(fromRL(x), fromRL(y)) {
					r.Fail("differential", field, "quota %s %s: incrementally maintained %s != fresh manager (variant %d) %s (burst %d)", n, field, fmtRL(fromRL(x)), k, fmtRL(fromRL(y)), burst)
				}
			}
			if r.Prop == "C01" {
				cmp("used", a.Used, b.Used)
				cmp("request", a.Request, b.Request)
				cmp("childRequest", a.ChildRequest, b.ChildRequest)
				cmp("nonPreemptibleUsed", a.NonPreemptibleUsed, b.NonPreemptibleUsed)
				cmp("nonPreemptibleRequest", a.NonPreemptibleRequest, b.NonPreemptibleRequest)
				cmp("selfUsed", a.SelfUsed, b.SelfUsed)
				cmp("selfRequest", a.SelfRequest, b.SelfRequest)
				if len(a.PodCache) != len(b.PodCache) {
					r.Fail("differential", "podcache", "quota %s caches %d pods, fresh manager %d", n, len(a.PodCache), len(b.PodCache))
				}
			}
			if r.Prop == "C02" && s.cfg.Runtime {
				cmp("runtime", a.Runtime, b.Runtime)
				cmp("autoScaleMin", a.AutoScaleMin, b.AutoScaleMin)
				if s.cfg.Guarantee {
					cmp("guaranteed", a.Guaranteed, b.Guaranteed)
					cmp("allocated", a.Allocated, b.Allocated)
				}
			}
		}
		if len(fresh) != len(live) {
			r.Fail("differential", "quota-count", "live reports %d quotas, fresh manager %d", len(live), len(fresh))
		}
	}
}

// C02 (a)-(e): bounds, conservation, work conservation and weighted fairness of
// the runtime division among the children of every parent.
func (s *qSim) checkRuntimeSharing(live map[string]*core.QuotaInfoSummary, burst int) {
	r := s.r
	parents := []string{extension.RootQuotaName}
	for n, q := range s.st.quotas {
		if q.IsPar {
			parents = append(parents, n)
		}
	}
	sort.Strings(parents)
	rootTotal := fromRL(s.pl.groupQuotaManager.RefreshRuntime(extension.RootQuotaName))
	for _, p := range parents {
		cs := s.st.children(p)
		if len(cs) == 0 {
			continue
		}
		var total rl
		if p == extension.RootQuotaName {
			total = rootTotal
		} else {
			total = fromRL(live[p].Runtime)
		}
		for _, d := range qDims {
			n := len(cs)
			T := total[d]
			if T < 0 {
				T = 0
			}
			req := make([]int64, n)
			min := make([]int64, n)
			w := make([]int64, n)
			rt := make([]int64, n)
			lent := make([]bool, n)
			var sumMin, sumRt int64
			for i, c := range cs {
				q := live[c]
				rq := fromRL(q.Request)[d]
				if mx := fromRL(q.Max)[d]; rq > mx {
					rq = mx
				}
				req[i] = rq
				min[i] = fromRL(q.AutoScaleMin)[d]
				if gd := fromRL(q.Guaranteed)[d]; s.cfg.Guarantee && gd > min[i] {
					min[i] = gd // the guaranteed minimum: what is already allocated below the quota is never taken away
				}
				w[i] = fromRL(q.SharedWeight)[d]
				rt[i] = fromRL(q.Runtime)[d]
				lent[i] = q.AllowLentResource
				sumMin += min[i]
				sumRt += rt[i]
				lo, hi := req[i], min[i]
				if lo > hi {
					lo, hi = hi, lo
				}
				if rt[i] < lo || rt[i] > hi {
					r.Fail("runtime-bounds", d, "parent %s child %s dim %s: runtime %d outside [min(req,min)=%d, max(req,min)=%d] (req=%d min=%d) burst %d", p, c, d, rt[i], lo, hi, req[i], min[i], burst)
				}
			}
			if sumMin > T {
				r.Probe("mins-do-not-fit")
				continue
			}
			if sumRt > T {
				r.Fail("runtime-conservation", d+"/over", "parent %s dim %s: children's runtime sums to %d > parent's %d although minimums (%d) fit", p, d, sumRt, T, sumMin)
			}
			if sumRt < T {
				for i, c := range cs {
					if w[i] > 0 && rt[i] < req[i] {
						r.Fail("runtime-conservation", d+"/idle", "parent %s dim %s: %d of %d left undistributed while weighted child %s has runtime %d < request %d", p, d, T-sumRt, T, c, rt[i], req[i])
					}
				}
			}
			// (e) exact rational weighted water-filling
			x := waterFill(T, req, min, w, lent)
			tol := big.NewRat(int64(n*n+n+2), 1)
			for i, c := range cs {
				diff := new(big.Rat).Sub(new(big.Rat).SetInt64(rt[i]), x[i])
				if diff.Sign() < 0 {
					diff.Neg(diff)
				}
				if diff.Cmp(tol) > 0 {
					r.Fail("runtime-fairness", d, "parent %s dim %s child %s: runtime %d, exact weighted water-filling gives %s (req=%v min=%v w=%v total=%d)", p, d, c, rt[i], x[i].FloatString(2), req, min, w, T)
				}
			}
			r.Probe("runtime-division-checked")
		}
	}
}

// waterFill is the statement of C02 in exact rational arithmetic.
func waterFill(T int64, req, min, w []int64, lent []bool) []*big.Rat {
	n := len(req)
	x := make([]*big.Rat, n)
	active := map[int]bool{}
	rem := new(big.Rat).SetInt64(T)
	for i := 0; i < n; i++ {
		base := min[i]
		if req[i] <= min[i] && lent[i] {
			base = req[i]
		}
		x[i] = new(big.Rat).SetInt64(base)
		rem.Sub(rem, x[i])
		if req[i] > min[i] && w[i] > 0 {
			active[i] = true
		}
	}
	for rem.Sign() > 0 && len(active) > 0 {
		var W int64
		for i := range active {
			W += w[i]
		}
		// saturate every child whose proportional share reaches its request
		sat := false
		for i := 0; i < n; i++ {
			if !active[i] {
				continue
			}
			share := new(big.Rat).Mul(rem, big.NewRat(w[i], W))
			if new(big.Rat).Add(x[i], share).Cmp(new(big.Rat).SetInt64(req[i])) >= 0 {
				sat = true
			}
		}
		if !sat {
			for i := range active {
				x[i].Add(x[i], new(big.Rat).Mul(rem, big.NewRat(w[i], W)))
			}
			break
		}
		// find the child that saturates first (smallest (req-x)/w), saturate it, repeat
		best := -1
		var bestLevel *big.Rat
		for i := 0; i < n; i++ {
			if !active[i] {
				continue
			}
			lvl := new(big.Rat).Quo(new(big.Rat).Sub(new(big.Rat).SetInt64(req[i]), x[i]), new(big.Rat).SetInt64(w[i]))
			if best < 0 || lvl.Cmp(bestLevel) < 0 {
				best, bestLevel = i, lvl
			}
		}
		need := new(big.Rat).Sub(new(big.Rat).SetInt64(req[best]), x[best])
		// raising the water level to bestLevel costs level*W
		cost := new(big.Rat).Mul(bestLevel, new(big.Rat).SetInt64(W))
		_ = need
		for i := range active {
			x[i].Add(x[i], new(big.Rat).Mul(bestLevel, new(big.Rat).SetInt64(w[i])))
		}
		rem.Sub(rem, cost)
		delete(active, best)
		for i := range active {
			if x[i].Cmp(new(big.Rat).SetInt64(req[i])) >= 0 {
				delete(active, i)
			}
		}
	}
	return x
}

// C03 invariant: a quota whose max was not lowered never shows used above max.
func (s *qSim) checkUsedWithinMax(live map[string]*core.QuotaInfoSummary, names []string) {
	for _, n := range names {
		mq := s.st.quotas[n]
		if mq == nil || mq.maxLowered || s.externallyBound(n) {
			continue
		}
		if mq.IsPar && !s.cfg.CheckParent {
			continue // ancestors are only limited when parent checking is on
		}
		used, max := fromRL(live[n].Used), fromRL(live[n].Max)
		for _, d := range qDims {
			if used[d] > max[d] {
				s.r.Fail("used-within-max", d, "quota %s: used[%s]=%d > max=%d although max was never lowered and every pod was admitted through PreFilter", n, d, used[d], max[d])
			}
		}
	}
}

// externallyBound: usage that did not go through this scheduler's admission
// (fail-over pods, resizes, relabels, re-parenting) suspends the invariant for the quota subtree.
func (s *qSim) externallyBound(q string) bool { return s.st.suspended[q] }

type verdictInputs struct {
	quota  string
	chain  []string
	used   map[string]rl
	npUsed rl
}

func (s *qSim) modelVerdictInputs(pod *corev1.Pod) *verdictInputs {
	mp := s.st.pods[pod.Name]
	if mp == nil {
		return nil
	}
	m := s.modelAggregates()
	vi := &verdictInputs{quota: s.resolveQuota(mp), used: map[string]rl{}}
	for x := vi.quota; x != extension.RootQuotaName; {
		vi.chain = append(vi.chain, x)
		vi.used[x] = m[x].used
		if q := s.st.quotas[x]; q != nil {
			x = q.Parent
		} else {
			x = extension.RootQuotaName
		}
	}
	vi.npUsed = m[vi.quota].npUsed
	return vi
}

// checkVerdict: strict per-attempt oracle (the attempt ran while nothing else was
// changing state): the verdict must equal the one recomputed independently from
// the API objects; the limit is the quota's freshly refreshed runtime (or max).
func (s *qSim) checkVerdict(pod *corev1.Pod, status *fwktype.Status, vi *verdictInputs) {
	if vi == nil {
		return
	}
	r := s.r
	r.OracleEval()
	mp := s.st.pods[pod.Name]
	req := maskDims(mp.Req)
	mgr := s.pl.groupQuotaManager
	limitOf := func(q string) rl {
		if s.cfg.Runtime {
			if q == extension.DefaultQuotaName || q == extension.SystemQuotaName {
				return fromRL(mgr.GetQuotaInfoByName(q).GetMax())
			}
			mgr.RefreshRuntime(q)
			return fromRL(mgr.GetQuotaInfoByName(q).GetRuntime())
		}
		return fromRL(mgr.GetQuotaInfoByName(q).GetMax())
	}
	// reason: over a limit under the lenient reading (an ancestor is only looked at in the dimensions the pod actually
	// requests); strictReason: over a limit under the strict reading of the statement (usage + request within the limit in
	// every declared dimension of the quota and of every ancestor, even where the pod requests nothing and the group is
	// already above its limit). An admission is wrong only if even the lenient reading is over a limit; a rejection is
	// wrong only if even the strict reading fits. In between either verdict is accepted.
	reason, strictReason := "", ""
	chain := vi.chain
	if !s.cfg.CheckParent {
		chain = chain[:1]
	}
	for i, q := range chain {
		lim := limitOf(q)
		for _, d := range qDims {
			if vi.used[q][d]+req[d] > lim[d] {
				strictReason = fmt.Sprintf("%s: used %d + req %d > limit %d in %s", q, vi.used[q][d], req[d], lim[d], d)
				if i == 0 || req[d] != 0 {
					reason = strictReason
				}
			}
		}
	}
	if q := s.st.quotas[vi.quota]; mp.NonPre && q != nil { // the default quota declares no min: nothing to compare against
		min := q.Min
		for _, d := range qDims {
			if vi.npUsed[d]+req[d] > min[d] {
				reason = fmt.Sprintf("%s: non-preemptible used %d + req %d > min %d in %s", vi.quota, vi.npUsed[d], req[d], min[d], d)
				strictReason = reason
			}
		}
	}
	r.Probe("strict-verdicts")
	if status.IsSuccess() && reason != "" {
		r.Fail("admission", "admitted-over-limit", "pod %s admitted to quota %s but %s (runtime=%v checkParent=%v)", pod.Name, vi.quota, reason, s.cfg.Runtime, s.cfg.CheckParent)
	}
	if !status.IsSuccess() && reason == "" && strictReason != "" {
		r.Probe("rejected-only-under-strict-reading")
	}
	if !status.IsSuccess() && strictReason == "" {
		if status.Code() != fwktype.Unschedulable {
			r.Fail("admission", "error-status", "PreFilter for pod %s returned %v: %s", pod.Name, status.Code(), status.Message())
		}
		r.Fail("admission", "rejected-within-limit", "pod %s rejected (%s) although it fits every limit recomputed from the objects", pod.Name, status.Message())
	}
	if !status.IsSuccess() {
		r.Probe("rejected")
	}
}
