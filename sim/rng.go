//go:build verif

// Package verifsim is the deterministic-simulation runtime used by the /verif
// harnesses. It is never present on disk in the repository: it reaches the
// compiler through `go test -overlay` only. Standard library only.
package verifsim

// Rng is a splitmix64 generator. Every random choice of a run is derived from
// one of these, seeded from VERIF_SEED; nothing else feeds randomness.
type Rng struct{ s uint64 }

func NewRng(seed uint64) *Rng { return &Rng{s: seed} }

func Mix(a, b uint64) uint64 {
	z := a ^ (b+0x9e3779b97f4a7c15)*0xbf58476d1ce4e5b9
	z ^= z >> 30
	z *= 0xbf58476d1ce4e5b9
	z ^= z >> 27
	z *= 0x94d049bb133111eb
	z ^= z >> 31
	return z
}

func HashString(s string) uint64 {
	h := uint64(14695981039346656037)
	for i := 0; i < len(s); i++ {
		h ^= uint64(s[i])
		h *= 1099511628211
	}
	return h
}

func (r *Rng) U64() uint64 {
	r.s += 0x9e3779b97f4a7c15
	z := r.s
	z = (z ^ (z >> 30)) * 0xbf58476d1ce4e5b9
	z = (z ^ (z >> 27)) * 0x94d049bb133111eb
	return z ^ (z >> 31)
}

// Intn returns a value in [0,n). n<=0 yields 0.
func (r *Rng) Intn(n int) int {
	if n <= 1 {
		return 0
	}
	return int(r.U64() % uint64(n))
}

// Range returns a value in [lo,hi].
func (r *Rng) Range(lo, hi int) int {
	if hi <= lo {
		return lo
	}
	return lo + r.Intn(hi-lo+1)
}

func (r *Rng) I64n(n int64) int64 {
	if n <= 1 {
		return 0
	}
	return int64(r.U64() % uint64(n))
}

func (r *Rng) Float() float64 { return float64(r.U64()>>11) / float64(1<<53) }

func (r *Rng) Bool(p float64) bool { return r.Float() < p }

// Fork derives an independent generator.
func (r *Rng) Fork(tag string) *Rng { return NewRng(Mix(r.U64(), HashString(tag))) }

// Pick returns one of the strings.
func (r *Rng) Pick(xs ...string) string { return xs[r.Intn(len(xs))] }

// PickInt returns one of the ints.
func (r *Rng) PickInt(xs ...int) int { return xs[r.Intn(len(xs))] }

func (r *Rng) PickI64(xs ...int64) int64 { return xs[r.Intn(len(xs))] }

// Perm returns a permutation of 0..n-1.
func (r *Rng) Perm(n int) []int {
	p := make([]int, n)
	for i := range p {
		p[i] = i
	}
	for i := n - 1; i > 0; i-- {
		j := r.Intn(i + 1)
		p[i], p[j] = p[j], p[i]
	}
	return p
}
