//go:build verif

package verifsim

import _ "unsafe"

// These variables live in the overlay-patched go1.26.8 runtime (see
// /verif/cmd/verifctl/rtpatch.go): seeded map iteration, seeded user-level
// randomness, and the goroutine id used to map goroutines to actors.
// Variables (not functions) are pulled so that no assembly stub is needed in
// this overlay-only package.

//go:linkname rtMapRand runtime.verifMapRand
var rtMapRand uint64

//go:linkname rtUserState runtime.verifUserState
var rtUserState uint64

//go:linkname rtGoidFn runtime.verifGoidFn
var rtGoidFn func() uint64

func setMapRand(v uint64)  { rtMapRand = v }
func setUserRand(v uint64) { rtUserState = v }
func goid() uint64         { return rtGoidFn() }
