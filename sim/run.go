//go:build verif

package verifsim

import (
	"fmt"
	"reflect"
	"runtime/debug"
	"sort"
	"strings"
	"sync"
	"sync/atomic"
	"testing"
	"testing/synctest"
	"time"
)

// Violation is a property violation found by an oracle.
type Violation struct {
	Property  string `json:"property"`
	Oracle    string `json:"oracle"`
	Signature string `json:"signature"` // oracle id + key attributes: the violation class
	Message   string `json:"message"`
	Step      int    `json:"step"`
	Stack     string `json:"stack,omitempty"`
}

type harnessError struct{ msg string }

func (h harnessError) Error() string { return h.msg }

type abortSentinel struct{}

// Stats are the per-run reach counters.
type Stats struct {
	Steps       int            `json:"steps"`
	Switches    int            `json:"switches"`
	Ops         int            `json:"ops"`
	OpsSkipped  int            `json:"ops_skipped"`
	OracleEvals int            `json:"oracle_evals"`
	FaultCalls  int            `json:"fault_calls"`
	Faults      map[string]int `json:"faults"`
	Probes      map[string]int `json:"probes"`
	MaxActors   int            `json:"max_actors"`
	SimNanos    int64          `json:"sim_ns"`
}

// Actor is a simulated thread of the system under test: a real goroutine that
// only runs while it owns the token.
type Actor struct {
	ID     int
	Name   string
	Daemon bool
	wake   chan struct{}
	parked atomic.Bool
	done   atomic.Bool
	site   string
	probe  func() bool
	wakeAt time.Time
	goid   uint64
	inCode bool                 // parked at a site inside the code under test (see parkInCode)
	held   map[string]*heldLock // lock-discipline bookkeeping (engines with "lock_discipline")
}

// Run is one simulated execution.
type Run struct {
	Plan *Plan
	Prop string
	T    *testing.T

	sched, fault, deliver tape

	mu        sync.Mutex
	actors    []*Actor
	byGoid    map[uint64]*Actor
	driverG   uint64
	running   *Actor
	kick      chan struct{}
	killed    atomic.Bool
	violation *Violation
	herr      *harnessError

	MaxSteps int
	hash     uint64
	evseq    uint64
	tracing  bool
	trace    []string
	start    time.Time

	LastFaultSeq uint64
	Stats        Stats
	sample       []string
	tags         map[string]bool
}

var cur atomic.Pointer[Run]

// Current returns the run in progress (nil outside a run).
func Current() *Run { return cur.Load() }

func newRun(t *testing.T, p *Plan, tracing bool) *Run {
	r := &Run{Plan: p, Prop: p.Prop, T: t, byGoid: map[uint64]*Actor{}, kick: make(chan struct{}, 1),
		MaxSteps: 200000, tracing: tracing, start: time.Now()}
	r.Stats.Faults = map[string]int{}
	r.Stats.Probes = map[string]int{}
	r.sched = tape{vals: &p.Sched}
	r.fault = tape{vals: &p.Fault}
	r.deliver = tape{vals: &p.Deliver}
	if p.Generative {
		r.sched.rng = NewRng(Mix(p.Seed, 0x5c4ed))
		r.fault.rng = NewRng(Mix(p.Seed, 0xfa017))
		r.deliver.rng = NewRng(Mix(p.Seed, 0xde11e))
	}
	r.driverG = goid()
	r.hash = 1469598103934665603
	return r
}

// ---------------------------------------------------------------- event log

// Seq returns the next global event sequence number (used to stamp histories).
func (r *Run) Seq() uint64 { return atomic.AddUint64(&r.evseq, 1) }

// Event mixes s into the run's event-log hash (and the trace when tracing).
// It never draws randomness and never reads a clock.
func (r *Run) Event(format string, args ...any) {
	var s string
	if len(args) == 0 {
		s = format
	} else {
		s = fmt.Sprintf(format, args...)
	}
	r.mu.Lock()
	r.hash = Mix(r.hash, HashString(s))
	if r.tracing {
		r.trace = append(r.trace, s)
	}
	r.mu.Unlock()
}

// Sample adds a human-readable line describing this run (kept for evidence samples).
func (r *Run) Sample(format string, args ...any) {
	if len(r.sample) < 40 {
		r.sample = append(r.sample, fmt.Sprintf(format, args...))
	}
}

func (r *Run) Probe(name string) {
	r.mu.Lock()
	r.Stats.Probes[name]++
	r.mu.Unlock()
}

func (r *Run) OracleEval() { r.mu.Lock(); r.Stats.OracleEvals++; r.mu.Unlock() }
func (r *Run) OpDone()     { r.mu.Lock(); r.Stats.Ops++; r.mu.Unlock() }
func (r *Run) OpSkipped()  { r.mu.Lock(); r.Stats.OpsSkipped++; r.mu.Unlock() }

// Now is the simulated clock (the synctest bubble clock).
func (r *Run) Now() time.Time { return time.Now() }

// ---------------------------------------------------------------- choices

// Choose returns a value in [0,n) from the deliver tape.
func (r *Run) Choose(n int) int {
	if n <= 1 {
		return 0
	}
	v := r.deliver.next(func(g *Rng) int { return g.Intn(n) })
	if v < 0 {
		v = -v
	}
	return v % n
}

// Flip returns true with probability p (tape value 0 = false, so shrinking
// removes anomalies).
func (r *Run) Flip(p float64) bool {
	v := r.deliver.next(func(g *Rng) int {
		if g.Float() < p {
			return 1
		}
		return 0
	})
	return v != 0
}

// Fault consults the fault tape at a faultable call. It returns "" (no fault)
// or one of the offered kinds. A kind is only generated when the plan enables it.
func (r *Run) Fault(site string, kinds ...string) string {
	if len(kinds) == 0 {
		return ""
	}
	r.mu.Lock()
	r.Stats.FaultCalls++
	r.mu.Unlock()
	v := r.fault.next(func(g *Rng) int {
		if r.Plan.FaultRate <= 0 || g.Float() >= r.Plan.FaultRate {
			return 0
		}
		var idx []int
		for i, k := range kinds {
			if r.Plan.FaultEnabled(k) {
				idx = append(idx, i)
			}
		}
		if len(idx) == 0 {
			return 0
		}
		return 1 + idx[g.Intn(len(idx))]
	})
	if v <= 0 {
		return ""
	}
	k := kinds[(v-1)%len(kinds)]
	r.mu.Lock()
	r.Stats.Faults[k]++
	r.mu.Unlock()
	r.LastFaultSeq = r.Seq()
	r.Event("fault %s %s", site, k)
	return k
}

// ---------------------------------------------------------------- failures

// Fail records a violation of the property under test and aborts the run.
// sigDetail names the specific failing shape/call site so that a different
// violation of the same property is still reported.
func (r *Run) Fail(oracle, sigDetail, format string, args ...any) {
	r.mu.Lock()
	if r.violation == nil {
		sig := r.Prop + "/" + oracle
		if sigDetail != "" {
			sig += "/" + sigDetail
		}
		sig += r.tagSuffix()
		r.violation = &Violation{Property: r.Prop, Oracle: oracle, Signature: sig,
			Message: fmt.Sprintf(format, args...), Step: r.Stats.Steps}
	}
	r.mu.Unlock()
	r.killed.Store(true)
	panic(abortSentinel{})
}

// Tag marks this run's history as belonging to a named class (e.g. a history
// shape for which a genuine defect is already recorded in known_findings.jsonl).
// Tags become part of every violation signature of the run, "[a+b]", so that a
// recorded finding is identified by the specific history that fails while the
// same oracle failing on an untagged history is still a new violation.
func (r *Run) Tag(name string) {
	r.mu.Lock()
	if r.tags == nil {
		r.tags = map[string]bool{}
	}
	if !r.tags[name] {
		r.tags[name] = true
		r.Stats.Probes["tag:"+name]++
	}
	r.mu.Unlock()
}

// Untag withdraws a history tag: for history classes that END (the state a recorded defect corrupted has been rewritten
// by the code under test itself), so that the rest of the run is judged without the tag. Only the harness's knowledge of
// the history may decide this, never the symptom.
func (r *Run) Untag(name string) {
	r.mu.Lock()
	if r.tags[name] {
		delete(r.tags, name)
		r.Stats.Probes["untag:"+name]++
	}
	r.mu.Unlock()
}

// tagSuffix must be called with r.mu held.
func (r *Run) tagSuffix() string {
	if len(r.tags) == 0 {
		return ""
	}
	ts := make([]string, 0, len(r.tags))
	for t := range r.tags {
		ts = append(ts, t)
	}
	sort.Strings(ts)
	return "[" + strings.Join(ts, "+") + "]"
}

// HarnessFail reports trouble in the machinery (exit 2, never a VIOLATION).
func (r *Run) HarnessFail(format string, args ...any) {
	r.mu.Lock()
	if r.herr == nil {
		r.herr = &harnessError{fmt.Sprintf(format, args...)}
	}
	r.mu.Unlock()
	r.killed.Store(true)
	panic(abortSentinel{})
}

func classifyPanic(stack string) (harness bool, at string) {
	// first frame below the panic call that is not runtime/testing
	lines := strings.Split(stack, "\n")
	seenPanic := false
	for i := 0; i+1 < len(lines); i++ {
		l := lines[i]
		if strings.HasPrefix(l, "panic(") {
			seenPanic = true
			continue
		}
		if !seenPanic || strings.HasPrefix(l, "\t") || strings.HasPrefix(l, "goroutine ") || l == "" {
			continue
		}
		loc := strings.TrimSpace(lines[i+1])
		if strings.Contains(loc, "/src/runtime/") || strings.Contains(loc, "/src/testing/") {
			continue
		}
		if j := strings.Index(loc, " +0x"); j > 0 {
			loc = loc[:j]
		}
		h := strings.Contains(loc, "_verif_test.go") || strings.Contains(loc, "/verifsim/") || strings.Contains(loc, "zz_verif")
		if k := strings.LastIndex(loc, "/pkg/"); k >= 0 {
			loc = loc[k+1:]
		}
		return h, loc
	}
	return true, "unknown"
}

func (r *Run) handlePanic(e any, stack string) {
	switch v := e.(type) {
	case abortSentinel:
		return
	case harnessError:
		r.mu.Lock()
		if r.herr == nil {
			r.herr = &v
		}
		r.mu.Unlock()
		r.killed.Store(true)
		return
	}
	h, at := classifyPanic(stack)
	r.mu.Lock()
	if h {
		if r.herr == nil {
			r.herr = &harnessError{fmt.Sprintf("harness panic: %v\n%s", e, stack)}
		}
	} else if r.violation == nil {
		r.violation = &Violation{Property: r.Prop, Oracle: "panic", Signature: r.Prop + "/panic/" + at + r.tagSuffix(),
			Message: fmt.Sprintf("code under test panicked: %v", e), Step: r.Stats.Steps, Stack: stack}
	}
	r.mu.Unlock()
	r.killed.Store(true)
}

// ---------------------------------------------------------------- actors

// Spawn creates an actor. It starts running only when the scheduler (Drive)
// hands it the token.
func (r *Run) Spawn(name string, fn func()) *Actor { return r.spawn(name, false, fn) }

// SpawnDaemon creates an actor that does not keep Drive alive.
func (r *Run) SpawnDaemon(name string, fn func()) *Actor { return r.spawn(name, true, fn) }

func (r *Run) spawn(name string, daemon bool, fn func()) *Actor {
	r.mu.Lock()
	a := &Actor{ID: len(r.actors), Name: name, Daemon: daemon, wake: make(chan struct{})}
	r.actors = append(r.actors, a)
	r.mu.Unlock()
	go func() {
		a.goid = goid()
		r.mu.Lock()
		r.byGoid[a.goid] = a
		r.mu.Unlock()
		defer func() {
			if e := recover(); e != nil {
				r.handlePanic(e, string(debug.Stack()))
			}
			a.done.Store(true)
			r.kickSched()
		}()
		r.park(a, "start", nil)
		fn()
	}()
	return a
}

func (r *Run) kickSched() {
	select {
	case r.kick <- struct{}{}:
	default:
	}
}

// parkInCode is park for the sites the instrumenter puts INSIDE the code under test (before a lock, after an unlock, at a
// write): when a run is aborted, an actor parked there is left parked for good instead of being unwound by a panic,
// because unwinding would run the code's deferred calls in a state they were not written for (e.g. a deferred Unlock while
// the actor sits between an explicit Unlock and the re-Lock: "fatal error: sync: Unlock of unlocked RWMutex" kills the
// whole worker and the violation is lost). The bubble then ends with blocked goroutines, which execute() expects.
func (r *Run) parkInCode(a *Actor, site string, probe func() bool) {
	a.inCode = true
	r.park(a, site, probe)
	a.inCode = false
}

func (r *Run) park(a *Actor, site string, probe func() bool) {
	if r.killed.Load() {
		panic(abortSentinel{})
	}
	a.site, a.probe = site, probe
	a.parked.Store(true)
	r.kickSched()
	<-a.wake
	a.probe = nil
	if r.killed.Load() {
		panic(abortSentinel{})
	}
}

func (r *Run) actorOfG() *Actor {
	g := goid()
	if g == r.driverG {
		return nil
	}
	r.mu.Lock()
	a := r.byGoid[g]
	if a == nil {
		// a goroutine started by the code under test: adopt it
		a = &Actor{ID: len(r.actors), Name: fmt.Sprintf("g%d", len(r.actors)), Daemon: true, wake: make(chan struct{}), goid: g}
		r.actors = append(r.actors, a)
		r.byGoid[g] = a
		r.Stats.Probes["adopted-goroutine"]++
	}
	r.mu.Unlock()
	return a
}

// Yield is a scheduling point without a lock.
func (r *Run) Yield(site string) {
	a := r.actorOfG()
	if a == nil {
		return
	}
	r.park(a, site, nil)
}

// Sleep suspends the calling actor for d of simulated time (driver: plain sleep).
func (r *Run) Sleep(d time.Duration) {
	a := r.actorOfG()
	if a == nil {
		time.Sleep(d)
		return
	}
	a.wakeAt = time.Now().Add(d)
	r.park(a, "sleep", nil)
}

// BeforeLock is called by instrumented code before X.Lock()/X.RLock().
func BeforeLock(site string, probe func() bool) {
	r := cur.Load()
	if r == nil {
		return
	}
	a := r.actorOfG()
	if a == nil {
		// the driver runs real code only at quiescent points; the lock must be free
		if !probe() {
			r.HarnessFail("driver goroutine would block on a lock held by a parked actor at %s", site)
		}
		return
	}
	r.parkInCode(a, site, probe)
}

// Yield (package level) is inserted by the instrumenter at extra sites.
func Yield(site string) {
	r := cur.Load()
	if r == nil {
		return
	}
	a := r.actorOfG()
	if a == nil {
		return
	}
	r.parkInCode(a, site, nil)
}

// ---------------------------------------------------------------- scheduler

const idleLimit = 24 * time.Hour

// Drive runs the token-passing scheduler until every non-daemon actor has
// finished. It is called by the driver (the bubble's main goroutine).
func (r *Run) Drive() {
	for {
		synctest.Wait()
		if r.violation != nil || r.herr != nil {
			r.killed.Store(true)
			panic(abortSentinel{})
		}
		now := time.Now()
		live, elsewhere := 0, 0
		var enabled []*Actor
		var nextWake time.Time
		r.mu.Lock()
		actors := r.actors
		r.mu.Unlock()
		if len(actors) > r.Stats.MaxActors {
			r.Stats.MaxActors = len(actors)
		}
		for _, a := range actors {
			if a.done.Load() {
				continue
			}
			if !a.Daemon {
				live++
			}
			if !a.parked.Load() {
				elsewhere++
				continue
			}
			if !a.wakeAt.IsZero() && now.Before(a.wakeAt) {
				if nextWake.IsZero() || a.wakeAt.Before(nextWake) {
					nextWake = a.wakeAt
				}
				continue
			}
			if a.probe != nil && !a.probe() {
				continue
			}
			enabled = append(enabled, a)
		}
		if live == 0 {
			r.running = nil
			return
		}
		if len(enabled) == 0 {
			if !nextWake.IsZero() {
				time.Sleep(nextWake.Sub(now))
				continue
			}
			if elsewhere > 0 {
				// actors blocked in the code under test on a timer/channel: let bubble time pass
				select {
				case <-r.kick:
					continue
				case <-time.After(idleLimit):
				}
			}
			r.failDeadlock(actors)
		}
		// order: running actor first, then by id
		sort.SliceStable(enabled, func(i, j int) bool {
			if (enabled[i] == r.running) != (enabled[j] == r.running) {
				return enabled[i] == r.running
			}
			return enabled[i].ID < enabled[j].ID
		})
		idx := 0
		if len(enabled) > 1 {
			n := len(enabled)
			v := r.sched.next(func(g *Rng) int {
				if g.Float() < r.Plan.SwitchP {
					return 1 + g.Intn(n-1)
				}
				return 0
			})
			if v < 0 {
				v = -v
			}
			idx = v % n
		}
		a := enabled[idx]
		if a != r.running {
			r.Stats.Switches++
		}
		r.Stats.Steps++
		if r.Stats.Steps > r.MaxSteps {
			r.HarnessFail("step cap %d exceeded (livelock?) last site %s", r.MaxSteps, a.site)
		}
		r.hash = Mix(r.hash, uint64(a.ID)<<32^HashString(a.site))
		if r.tracing {
			r.trace = append(r.trace, fmt.Sprintf("step %d actor %d(%s) at %s", r.Stats.Steps, a.ID, a.Name, a.site))
		}
		r.running = a
		a.wakeAt = time.Time{}
		a.parked.Store(false)
		// drain a stale kick so that it reflects only events after this hand-off
		select {
		case <-r.kick:
		default:
		}
		a.wake <- struct{}{}
	}
}

func (r *Run) failDeadlock(actors []*Actor) {
	var sb strings.Builder
	var sites []string
	for _, a := range actors {
		if a.done.Load() {
			continue
		}
		st := "blocked-in-code"
		if a.parked.Load() {
			st = "waits-for-lock@" + a.site
			sites = append(sites, a.site)
		}
		fmt.Fprintf(&sb, "actor %d(%s): %s; ", a.ID, a.Name, st)
	}
	sort.Strings(sites)
	r.Fail("deadlock", strings.Join(sites, "+"), "no actor can make progress: %s", sb.String())
}

// cleanup releases every parked actor so that the bubble can end.
func (r *Run) cleanup() {
	r.killed.Store(true)
	for i := 0; i < 3; i++ {
		r.mu.Lock()
		actors := append([]*Actor(nil), r.actors...)
		r.mu.Unlock()
		n := 0
		aborted := r.violation != nil || r.herr != nil
		for _, a := range actors {
			if !a.done.Load() && a.parked.Load() {
				if aborted && a.inCode {
					continue // left parked, see parkInCode
				}
				a.parked.Store(false)
				a.wake <- struct{}{}
				n++
			}
		}
		synctest.Wait()
		if n == 0 {
			break
		}
	}
}

// AllDone reports whether every non-daemon actor finished.
func (r *Run) AllDone() bool {
	for _, a := range r.actors {
		if !a.Daemon && !a.done.Load() {
			return false
		}
	}
	return true
}

// Result of one execution.
type Result struct {
	Violation  *Violation
	Harness    string
	Hash       uint64
	Nontrivial bool
	Stats      Stats
	Trace      []string
	Sample     []string
	Plan       *Plan
}

// Engine is one harness: it generates workloads and executes plans against the
// real code of the package it lives in.
type Engine interface {
	Name() string
	// Generate fills p.Cfg and p.Ops (and may adjust SwitchP, FaultRate, Faults)
	// from g. It must not touch the tapes.
	Generate(p *Plan, g *Rng)
	// Execute runs the plan. It is called on the bubble's main goroutine (the driver).
	Execute(r *Run)
}

// execute runs one plan in a fresh synctest bubble.
func execute(t *testing.T, eng Engine, p *Plan, tracing bool) (res *Result) {
	res = &Result{Plan: p}
	var r *Run
	defer func() {
		if e := recover(); e != nil {
			// end-of-bubble deadlock panic (goroutines blocked in code under test) or harness trouble
			msg := fmt.Sprint(e)
			if strings.Contains(msg, "deadlock") && r != nil && (r.violation != nil || r.herr != nil) {
				// expected when a run is aborted while actors are blocked in the code
			} else if strings.Contains(msg, "deadlock") && r != nil {
				res.Harness = "bubble ended with blocked goroutines: " + msg
			} else {
				res.Harness = fmt.Sprintf("panic outside run: %v\n%s", e, debug.Stack())
			}
		}
		if r != nil {
			res.Hash = r.hash
			res.Stats = r.Stats
			res.Trace = r.trace
			res.Sample = r.sample
			if r.violation != nil {
				res.Violation = r.violation
			}
			if r.herr != nil {
				res.Harness = r.herr.msg
			}
			res.Nontrivial = r.Stats.Ops > 0 && r.Stats.OracleEvals > 0
		}
		cur.Store(nil)
		setMapRand(0)
		setUserRand(0)
	}()
	synctest.Test(t, func(t *testing.T) {
		r = newRun(t, p, tracing)
		setMapRand(p.MapSeed | 1)
		setUserRand(Mix(p.Seed, 0x75e7) | 1)
		cur.Store(r)
		defer func() {
			r.Stats.SimNanos = int64(time.Since(r.start))
			r.cleanup()
		}()
		func() {
			defer func() {
				if e := recover(); e != nil {
					r.handlePanic(e, string(debug.Stack()))
				}
			}()
			eng.Execute(r)
		}()
	})
	return res
}

// WaitUntil parks the calling actor until cond() holds (evaluated by the
// scheduler while every actor is parked). It is always a scheduling point.
func (r *Run) WaitUntil(site string, cond func() bool) {
	a := r.actorOfG()
	if a == nil {
		if !cond() {
			r.HarnessFail("driver would wait forever at %s", site)
		}
		return
	}
	r.park(a, site, cond)
}

// DrainDaemons lets the remaining daemon actors run to completion (they may be
// parked inside the code under test holding locks).
func (r *Run) DrainDaemons() {
	r.mu.Lock()
	n := 0
	for _, a := range r.actors {
		if a.Daemon && !a.done.Load() {
			a.Daemon = false
			n++
		}
	}
	r.mu.Unlock()
	if n > 0 {
		r.Drive()
	}
}

// SetMapSeed changes the Go map iteration seed in the middle of a run (used by
// order-independence oracles); callers restore Plan.MapSeed|1 afterwards.
func SetMapSeed(v uint64) { setMapRand(v) }

// ---------------------------------------------------------------- lock discipline

// heldLock is one lock an actor currently holds (as seen by the instrumented Lock/Unlock statements).
type heldLock struct {
	write bool
	n     int
	addrs []uintptr // addresses of the lock instances held under this expression text (split_rmw engines)
}

// Acquired / Released / Write are inserted by the instrumenter when an engine sets "lock_discipline": the simulator
// serialises actors and yields only at lock sites, so a critical section that takes the wrong lock MODE (RLock around
// a write) can never lose an update in any simulated schedule; this bookkeeping makes that defect observable:
// a write to the method receiver's state while the actor holds a lock of that receiver in read mode only, and no lock
// at all in write mode, is reported.
func Acquired(key string, write bool) {
	r := cur.Load()
	if r == nil {
		return
	}
	a := r.actorOfG()
	if a == nil {
		return
	}
	if a.held == nil {
		a.held = map[string]*heldLock{}
	}
	h := a.held[key]
	if h == nil {
		h = &heldLock{write: write}
		a.held[key] = h
	}
	h.n++
}

// AcquiredAt / ReleasedAt are Acquired / Released that also carry the address of the lock instance, and MidWrite is
// inserted by the instrumenter before (or, for a read-modify-write statement, between the read and the write of) every
// write to the state of a method's pointer receiver when an engine sets "split_rmw". The simulator otherwise switches
// actors only at lock sites, so a critical section whose lock SCOPE is too narrow (an object updated while only some
// other object's lock is held) could never lose an update in any simulated schedule. MidWrite is a scheduling point
// exactly when the writer does not hold, in exclusive mode, a lock that is part of the written object (objects of types
// without locks of their own: always): correct code excludes the other actors by some other lock and nothing changes;
// code that excludes nobody loses the update in some schedule and the engine's own oracles see it.
func AcquiredAt(key string, lock any, write bool) {
	r := cur.Load()
	if r == nil {
		return
	}
	a := r.actorOfG()
	if a == nil {
		return
	}
	if a.held == nil {
		a.held = map[string]*heldLock{}
	}
	h := a.held[key]
	if h == nil {
		h = &heldLock{write: write}
		a.held[key] = h
	}
	h.n++
	h.addrs = append(h.addrs, ptrOf(lock))
}

func ReleasedAt(key string, lock any) {
	r := cur.Load()
	if r == nil {
		return
	}
	a := r.actorOfG()
	if a == nil || a.held == nil {
		return
	}
	if h := a.held[key]; h != nil {
		p := ptrOf(lock)
		for i := len(h.addrs) - 1; i >= 0; i-- {
			if h.addrs[i] == p {
				h.addrs = append(h.addrs[:i], h.addrs[i+1:]...)
				break
			}
		}
		h.n--
		if h.n <= 0 {
			delete(a.held, key)
		}
	}
}

func ptrOf(p any) uintptr {
	v := reflect.ValueOf(p)
	if v.Kind() != reflect.Pointer || v.IsNil() {
		return 0
	}
	return v.Pointer()
}

func MidWrite(site string, recv any, typeHasOwnLocks bool) {
	r := cur.Load()
	if r == nil || r.killed.Load() {
		return
	}
	a := r.actorOfG()
	if a == nil {
		return
	}
	var lo, hi uintptr
	if v := reflect.ValueOf(recv); v.Kind() == reflect.Pointer && !v.IsNil() {
		lo = v.Pointer()
		hi = lo + v.Type().Elem().Size()
	}
	for _, h := range a.held {
		if !h.write {
			continue
		}
		for _, p := range h.addrs {
			if p >= lo && p < hi {
				return // an exclusive lock that is part of the written object is held
			}
		}
	}
	r.parkInCode(a, "write@"+site, nil)
}

func Released(key string) {
	r := cur.Load()
	if r == nil {
		return
	}
	a := r.actorOfG()
	if a == nil || a.held == nil {
		return
	}
	if h := a.held[key]; h != nil {
		h.n--
		if h.n <= 0 {
			delete(a.held, key)
		}
	}
}

func Write(site, recv string) {
	r := cur.Load()
	if r == nil || r.killed.Load() {
		return
	}
	a := r.actorOfG()
	if a == nil || len(a.held) == 0 {
		return
	}
	readOnly := ""
	for k, h := range a.held {
		if h.write {
			return // some exclusive lock is held: not judged
		}
		if strings.HasPrefix(k, recv+".") || k == recv {
			readOnly = k
		}
	}
	if readOnly != "" {
		r.Fail("lock-discipline", site, "shared state of %s is written at %s while only the read lock %s is held: concurrent writers are not excluded (updates can be lost, maps can be corrupted)", recv, site, readOnly)
	}
}
