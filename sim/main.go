//go:build verif

package verifsim

import (
	"encoding/binary"
	"encoding/json"
	"fmt"
	"os"
	"runtime"
	"sort"
	"strings"
	"testing"
	"time"
)

// Job is what verifctl hands to a worker process (path in env VERIF_JOB).
type Job struct {
	Mode     string  `json:"mode"` // batch | replay | shrink | trace
	Engine   string  `json:"engine"`
	Prop     string  `json:"prop"`
	Tier     string  `json:"tier"`
	Seed     uint64  `json:"seed"`
	Start    int     `json:"start"`
	Stride   int     `json:"stride"`
	MaxRuns  int     `json:"max_runs"`
	Seconds  float64 `json:"seconds"`
	Out      string  `json:"out"`
	Replay   string  `json:"replay,omitempty"`
	Budget   int     `json:"budget,omitempty"` // shrink re-executions
	HashOnly bool    `json:"hash_only,omitempty"`
	// Known: signature patterns ('*' wildcards) of the recorded findings of this property. A worker keeps one violation
	// per recorded PATTERN and, separately, up to maxNewSignatures distinct signatures that match none: the signature
	// families of recorded findings (oracle x detail x tag combination) must never use up the room for new violations.
	Known []string `json:"known,omitempty"`
}

const maxNewSignatures = 40

// WildMatch: '*' matches any (possibly empty) substring; everything else is literal.
func WildMatch(pat, s string) bool {
	parts := strings.Split(pat, "*")
	if len(parts) == 1 {
		return pat == s
	}
	if !strings.HasPrefix(s, parts[0]) {
		return false
	}
	s = s[len(parts[0]):]
	for i := 1; i < len(parts)-1; i++ {
		j := strings.Index(s, parts[i])
		if j < 0 {
			return false
		}
		s = s[j+len(parts[i]):]
	}
	return strings.HasSuffix(s, parts[len(parts)-1])
}

// FoundViolation pairs a violation with the (completed) plan that produced it.
type FoundViolation struct {
	Violation *Violation `json:"violation"`
	Plan      *Plan      `json:"plan"`
}

// BatchResult is written by a worker.
type BatchResult struct {
	Runs        int               `json:"runs"`
	Nontrivial  int               `json:"nontrivial"`
	FaultFree   int               `json:"fault_free_runs"`
	Stats       Stats             `json:"stats"`
	Violations  []*FoundViolation `json:"violations"`
	NViolations int               `json:"n_violations"`
	Harness     string            `json:"harness,omitempty"`
	Samples     []any             `json:"samples"`
	HashFile    string            `json:"hash_file"`
	WallS       float64           `json:"wall_s"`
	FirstIndex  int               `json:"first_index"`
	LastIndex   int               `json:"last_index"`
	RunHashes   map[string]string `json:"run_hashes,omitempty"` // index -> hash (hash_only/determinism mode)
	GoVersion   string            `json:"go_version"`
}

func addStats(dst *Stats, s *Stats) {
	dst.Steps += s.Steps
	dst.Switches += s.Switches
	dst.Ops += s.Ops
	dst.OpsSkipped += s.OpsSkipped
	dst.OracleEvals += s.OracleEvals
	dst.FaultCalls += s.FaultCalls
	dst.SimNanos += s.SimNanos
	if s.MaxActors > dst.MaxActors {
		dst.MaxActors = s.MaxActors
	}
	if dst.Faults == nil {
		dst.Faults = map[string]int{}
	}
	if dst.Probes == nil {
		dst.Probes = map[string]int{}
	}
	for k, v := range s.Faults {
		dst.Faults[k] += v
	}
	for k, v := range s.Probes {
		dst.Probes[k] += v
	}
}

// NewPlan derives the plan of run `index` of a batch.
func NewPlan(eng Engine, prop, tier string, base uint64, index int) *Plan {
	seed := Mix(Mix(base, HashString(prop)), uint64(index))
	g := NewRng(seed)
	p := &Plan{Engine: eng.Name(), Prop: prop, Tier: tier, Seed: seed, BaseSeed: base, Index: index, Generative: true}
	p.MapSeed = g.U64() | 1
	p.SwitchP = []float64{0.02, 0.1, 0.3, 0.7}[g.Intn(4)]
	// Go map iteration inside Generate is seeded too (outside a run the runtime hook is off)
	setMapRand(p.MapSeed | 1)
	eng.Generate(p, g.Fork("gen"))
	setMapRand(0)
	if p.Sched == nil {
		p.Sched = []int{}
	}
	if p.Fault == nil {
		p.Fault = []int{}
	}
	if p.Deliver == nil {
		p.Deliver = []int{}
	}
	return p
}

// Main is the entry point of every harness test binary.
func Main(t *testing.T, engines ...Engine) {
	path := os.Getenv("VERIF_JOB")
	if path == "" {
		t.Skip("VERIF_JOB not set (this test is driven by /verif/bin/verifctl)")
	}
	b, err := os.ReadFile(path)
	if err != nil {
		t.Fatalf("verifsim: %v", err)
	}
	job := &Job{}
	if err := json.Unmarshal(b, job); err != nil {
		t.Fatalf("verifsim: bad job: %v", err)
	}
	var eng Engine
	for _, e := range engines {
		if e.Name() == job.Engine {
			eng = e
		}
	}
	if eng == nil {
		t.Fatalf("verifsim: engine %q not in this binary", job.Engine)
	}
	var out any
	switch job.Mode {
	case "batch":
		out = runBatch(t, eng, job)
	case "replay", "trace":
		out = runReplay(t, eng, job)
	case "shrink":
		out = runShrink(t, eng, job)
	default:
		t.Fatalf("verifsim: unknown mode %q", job.Mode)
	}
	ob, _ := json.Marshal(out)
	if err := os.WriteFile(job.Out, ob, 0o644); err != nil {
		t.Fatalf("verifsim: %v", err)
	}
}

func runBatch(t *testing.T, eng Engine, job *Job) *BatchResult {
	res := &BatchResult{GoVersion: runtime.Version(), FirstIndex: job.Start}
	begin := time.Now()
	deadline := begin.Add(time.Duration(job.Seconds * float64(time.Second)))
	stride := job.Stride
	if stride <= 0 {
		stride = 1
	}
	hashes := make([]uint64, 0, 1024)
	seenSig := map[string]bool{}
	newSigs := 0
	if job.HashOnly {
		res.RunHashes = map[string]string{}
	}
	idx := job.Start
	for n := 0; job.MaxRuns <= 0 || n < job.MaxRuns; n++ {
		if job.Seconds > 0 && time.Now().After(deadline) {
			break
		}
		p := NewPlan(eng, job.Prop, job.Tier, job.Seed, idx)
		r := execute(t, eng, p, false)
		res.Runs++
		res.LastIndex = idx
		addStats(&res.Stats, &r.Stats)
		nf := 0
		for _, v := range r.Stats.Faults {
			nf += v
		}
		if nf == 0 {
			res.FaultFree++
		}
		if job.HashOnly {
			res.RunHashes[fmt.Sprint(idx)] = fmt.Sprintf("%016x", r.Hash)
		}
		if r.Harness != "" {
			res.Harness = fmt.Sprintf("run index %d seed %d: %s", idx, p.Seed, r.Harness)
			p.Generative = false
			res.Violations = append(res.Violations, &FoundViolation{Violation: &Violation{Property: job.Prop, Oracle: "harness", Signature: "harness", Message: r.Harness}, Plan: p})
			break
		}
		if r.Nontrivial {
			res.Nontrivial++
			hashes = append(hashes, r.Hash)
		}
		if len(res.Samples) < 2 && r.Nontrivial && len(r.Sample) > 0 {
			res.Samples = append(res.Samples, map[string]any{"index": idx, "seed": p.Seed, "ops": len(p.Ops), "steps": r.Stats.Steps,
				"switches": r.Stats.Switches, "faults": r.Stats.Faults, "trace": r.Sample})
		}
		if r.Violation != nil {
			res.NViolations++
			key, isKnown := r.Violation.Signature, false
			for _, pat := range job.Known {
				if WildMatch(pat, r.Violation.Signature) {
					key, isKnown = "known:"+pat, true
					break
				}
			}
			if !seenSig[key] && (isKnown || newSigs < maxNewSignatures) {
				seenSig[key] = true
				if !isKnown {
					newSigs++
				}
				p.Generative = false
				res.Violations = append(res.Violations, &FoundViolation{Violation: r.Violation, Plan: p})
			}
		}
		idx += stride
	}
	res.WallS = time.Since(begin).Seconds()
	// distinct schedule/state signatures of non-trivial runs
	sort.Slice(hashes, func(i, j int) bool { return hashes[i] < hashes[j] })
	hb := make([]byte, 8*len(hashes))
	for i, h := range hashes {
		binary.LittleEndian.PutUint64(hb[8*i:], h)
	}
	res.HashFile = job.Out + ".hashes"
	_ = os.WriteFile(res.HashFile, hb, 0o644)
	return res
}

// ReplayResult is the outcome of replaying one plan.
type ReplayResult struct {
	Violation *Violation `json:"violation"`
	Expected  string     `json:"expected_signature"`
	Same      bool       `json:"same"`
	Harness   string     `json:"harness,omitempty"`
	Hash      string     `json:"hash"`
	Hash2     string     `json:"hash_second_run"`
	Trace     []string   `json:"trace,omitempty"`
	Stats     Stats      `json:"stats"`
}

func runReplay(t *testing.T, eng Engine, job *Job) *ReplayResult {
	rf, err := LoadReplay(job.Replay)
	if err != nil {
		t.Fatalf("verifsim: %v", err)
	}
	p := rf.Plan.Clone()
	r := execute(t, eng, p, job.Mode == "trace")
	r2 := execute(t, eng, rf.Plan.Clone(), false)
	out := &ReplayResult{Violation: r.Violation, Expected: rf.Signature, Harness: r.Harness,
		Hash: fmt.Sprintf("%016x", r.Hash), Hash2: fmt.Sprintf("%016x", r2.Hash), Trace: r.Trace, Stats: r.Stats}
	if r.Violation != nil && (rf.Signature == "" || r.Violation.Signature == rf.Signature) {
		out.Same = true
	}
	return out
}

// ShrinkResult is the outcome of minimising one failing plan.
type ShrinkResult struct {
	Replay  *ReplayFile `json:"replay"`
	Runs    int         `json:"runs"`
	Harness string      `json:"harness,omitempty"`
	OK      bool        `json:"ok"` // the minimal plan reproduced the same signature twice
}

func runShrink(t *testing.T, eng Engine, job *Job) *ShrinkResult {
	rf, err := LoadReplay(job.Replay)
	if err != nil {
		t.Fatalf("verifsim: %v", err)
	}
	budget := job.Budget
	if budget <= 0 {
		budget = 1500
	}
	deadline := time.Now().Add(time.Duration(job.Seconds * float64(time.Second)))
	if job.Seconds <= 0 {
		deadline = time.Now().Add(120 * time.Second)
	}
	orig := rf.Plan.Clone()
	orig.Generative = false
	first := execute(t, eng, orig.Clone(), false)
	out := &ShrinkResult{}
	if first.Violation == nil {
		out.Harness = "plan does not reproduce any violation (non-determinism?) " + first.Harness
		return out
	}
	sig := first.Violation.Signature
	if rf.Signature != "" && rf.Signature != sig {
		out.Harness = fmt.Sprintf("plan reproduces %q, expected %q", sig, rf.Signature)
		return out
	}
	runs := 0
	best := orig
	bestV := first.Violation
	try := func(c *Plan) bool {
		if runs >= budget || time.Now().After(deadline) {
			return false
		}
		runs++
		c.Generative = false
		r := execute(t, eng, c.Clone(), false)
		if r.Violation != nil && r.Violation.Signature == sig && r.Harness == "" {
			best, bestV = c, r.Violation
			return true
		}
		return false
	}
	shrinkPlan(&best, try)
	// final confirmation: the minimal plan must fail the same way, twice
	c1 := execute(t, eng, best.Clone(), false)
	c2 := execute(t, eng, best.Clone(), false)
	out.OK = c1.Violation != nil && c2.Violation != nil && c1.Violation.Signature == sig && c2.Violation.Signature == sig && c1.Hash == c2.Hash
	if !out.OK {
		// fall back to the original plan, which did reproduce
		best, bestV = orig, first.Violation
		c1 = execute(t, eng, best.Clone(), false)
		out.OK = c1.Violation != nil && c1.Violation.Signature == sig
	}
	out.Runs = runs
	out.Replay = &ReplayFile{Property: bestV.Property, Signature: sig, Oracle: bestV.Oracle, Message: bestV.Message,
		Step: bestV.Step, Seed: orig.Seed, GoVersion: runtime.Version(), Plan: best, Original: orig, ShrinkRuns: runs}
	if strings.TrimSpace(bestV.Stack) != "" {
		out.Replay.Message += "\n" + bestV.Stack
	}
	return out
}

// shrinkPlan minimises *pp (ops by ddmin, then the three tapes) while try() keeps succeeding.
func shrinkPlan(pp **Plan, try func(*Plan) bool) {
	for round := 0; round < 3; round++ {
		before := planSize(*pp)
		// 1. ddmin over ops
		n := 2
		for len((*pp).Ops) > 0 {
			ops := (*pp).Ops
			if n > len(ops) {
				n = len(ops)
			}
			chunk := (len(ops) + n - 1) / n
			reduced := false
			for i := 0; i < len(ops); i += chunk {
				j := i + chunk
				if j > len(ops) {
					j = len(ops)
				}
				c := (*pp).Clone()
				c.Ops = append(append([]json.RawMessage{}, ops[:i]...), ops[j:]...)
				if try(c) {
					*pp = c
					reduced = true
					if n > 2 {
						n--
					}
					break
				}
			}
			if !reduced {
				if chunk <= 1 {
					break
				}
				n *= 2
			}
		}
		// 2. tapes: truncate then zero chunks
		for _, which := range []int{0, 1, 2} {
			get := func(p *Plan) *[]int {
				switch which {
				case 0:
					return &p.Fault
				case 1:
					return &p.Sched
				}
				return &p.Deliver
			}
			// truncation by halves
			for {
				tp := *get(*pp)
				if len(tp) == 0 {
					break
				}
				ok := false
				for _, keep := range []int{0, len(tp) / 2, len(tp) * 3 / 4, len(tp) - 1} {
					if keep >= len(tp) {
						continue
					}
					c := (*pp).Clone()
					*get(c) = append([]int{}, tp[:keep]...)
					if try(c) {
						*pp = c
						ok = true
						break
					}
				}
				if !ok {
					break
				}
			}
			// zero chunks
			for size := 64; size >= 1; size /= 2 {
				tp := *get(*pp)
				for i := 0; i < len(tp); i += size {
					j := i + size
					if j > len(tp) {
						j = len(tp)
					}
					nz := false
					for _, v := range tp[i:j] {
						if v != 0 {
							nz = true
						}
					}
					if !nz {
						continue
					}
					c := (*pp).Clone()
					ct := *get(c)
					for k := i; k < j; k++ {
						ct[k] = 0
					}
					if try(c) {
						*pp = c
						tp = *get(*pp)
					}
				}
			}
			// strip trailing zeros (equivalent by definition: exhausted => 0)
			tp := *get(*pp)
			k := len(tp)
			for k > 0 && tp[k-1] == 0 {
				k--
			}
			*get(*pp) = tp[:k]
		}
		if planSize(*pp) >= before {
			break
		}
	}
}

func planSize(p *Plan) int {
	n := len(p.Ops) * 1000
	for _, t := range [][]int{p.Sched, p.Fault, p.Deliver} {
		for _, v := range t {
			if v != 0 {
				n++
			}
		}
	}
	return n
}
