//go:build verif

package verifsim

import (
	"encoding/json"
	"fmt"
	"os"
)

// Plan is everything that decides one execution. execute(plan) is a pure
// function: the replay file is the plan as JSON.
type Plan struct {
	Engine    string            `json:"engine"`
	Prop      string            `json:"prop"`
	Tier      string            `json:"tier,omitempty"`
	Seed      uint64            `json:"seed"`      // run seed (already mixed with base seed, property, index)
	BaseSeed  uint64            `json:"base_seed"` // VERIF_SEED of the batch
	Index     int               `json:"index"`     // run index in the batch
	MapSeed   uint64            `json:"map_seed"`  // Go map iteration seed
	SwitchP   float64           `json:"switch_p"`  // probability of pre-empting at a yield point (generation only)
	FaultRate float64           `json:"fault_rate"`
	Faults    []string          `json:"faults,omitempty"` // enabled fault kinds (generation only)
	Cfg       json.RawMessage   `json:"cfg"`
	Ops       []json.RawMessage `json:"ops"`
	Sched     []int             `json:"sched"`
	Fault     []int             `json:"fault"`
	Deliver   []int             `json:"deliver"`
	// Generative: tapes are extended from the seed when exhausted (first
	// execution). A recorded plan has Generative=false: exhausted => 0.
	Generative bool `json:"generative,omitempty"`
}

// ReplayFile is what is written under /verif/replays.
type ReplayFile struct {
	Property  string `json:"property"`
	Signature string `json:"signature"`
	Oracle    string `json:"oracle"`
	Message   string `json:"message"`
	Step      int    `json:"step"`
	Seed      uint64 `json:"seed"`
	GoVersion string `json:"go_version"`
	Original  *Plan  `json:"original_plan,omitempty"`
	Plan      *Plan  `json:"plan"`
	ShrinkRuns int   `json:"shrink_runs"`
}

func (p *Plan) Clone() *Plan {
	q := *p
	q.Ops = append([]json.RawMessage(nil), p.Ops...)
	q.Sched = append([]int(nil), p.Sched...)
	q.Fault = append([]int(nil), p.Fault...)
	q.Deliver = append([]int(nil), p.Deliver...)
	q.Faults = append([]string(nil), p.Faults...)
	return &q
}

func (p *Plan) SetCfg(v any) {
	b, err := json.Marshal(v)
	if err != nil {
		panic(fmt.Sprintf("verifsim: cfg not serialisable: %v", err))
	}
	p.Cfg = b
}

func (p *Plan) SetOps(ops any) {
	b, err := json.Marshal(ops)
	if err != nil {
		panic(fmt.Sprintf("verifsim: ops not serialisable: %v", err))
	}
	var raw []json.RawMessage
	if err := json.Unmarshal(b, &raw); err != nil {
		panic(fmt.Sprintf("verifsim: ops must be a list: %v", err))
	}
	p.Ops = raw
}

func (p *Plan) GetCfg(v any) {
	if len(p.Cfg) == 0 {
		return
	}
	if err := json.Unmarshal(p.Cfg, v); err != nil {
		panic(harnessError{fmt.Sprintf("bad cfg in plan: %v", err)})
	}
}

// GetOps decodes the op list into *[]T.
func (p *Plan) GetOps(v any) {
	b, _ := json.Marshal(p.Ops)
	if err := json.Unmarshal(b, v); err != nil {
		panic(harnessError{fmt.Sprintf("bad ops in plan: %v", err)})
	}
}

func (p *Plan) FaultEnabled(kind string) bool {
	for _, k := range p.Faults {
		if k == kind {
			return true
		}
	}
	return false
}

func LoadReplay(path string) (*ReplayFile, error) {
	b, err := os.ReadFile(path)
	if err != nil {
		return nil, err
	}
	rf := &ReplayFile{}
	if err := json.Unmarshal(b, rf); err != nil {
		return nil, err
	}
	if rf.Plan == nil {
		// maybe a bare plan
		p := &Plan{}
		if err := json.Unmarshal(b, p); err != nil || p.Engine == "" {
			return nil, fmt.Errorf("%s: neither replay file nor plan", path)
		}
		rf.Plan = p
	}
	return rf, nil
}

// tape is one of the three choice sequences of a run.
type tape struct {
	vals *[]int
	pos  int
	rng  *Rng // nil when not generative
}

func (t *tape) next(gen func(r *Rng) int) int {
	if t.pos < len(*t.vals) {
		v := (*t.vals)[t.pos]
		t.pos++
		return v
	}
	v := 0
	if t.rng != nil {
		v = gen(t.rng)
	}
	// record consumed positions so that the plan after the run is complete
	*t.vals = append(*t.vals, v)
	t.pos++
	return v
}
