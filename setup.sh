#!/bin/sh
# Builds the verification driver and warms the Go build cache for every engine (offline, files on disk only).
set -e
cd "$(dirname "$0")"
export GOFLAGS=-mod=mod GOPROXY=off GOSUMDB=off GOTOOLCHAIN=local
mkdir -p bin evidence
(cd cmd/verifctl && /opt/veriftools/go1.26.8/bin/go build -o ../../bin/verifctl .)
./bin/verifctl setup
